#!/venv/bin/python
"""Seeded-defect bookkeeping.

  tools/seeded.py import <worktree> <Cxx> [round]   copy <worktree>/SEEDED/{A,B} to seeded/<Cxx>-<a|b>/ (round 2: c|d)
  tools/seeded.py verify <name>...            confirm each seeded change myself in a scratch copy:
                                               patch applies, repo tests unchanged, demo fails with / passes without
  tools/seeded.py check <name>... [--tier t]  run the property's check(s) against the patched scratch copy
  tools/seeded.py table                       rewrite seeded/README.md

Scratch copies live under /tmp/verif-seed-*/ and are removed afterwards.  Nothing here is
referenced by MANIFEST.json; /repo itself is never modified.
"""
import json, os, shutil, subprocess, sys, tempfile, time

ROOT = os.path.dirname(os.path.dirname(os.path.abspath(__file__)))
SEEDED = os.path.join(ROOT, "seeded")
PY = "/venv/bin/python"
BASELINE = "1 failed, 401 passed, 1 skipped"


def sh(cmd, **kw):
    return subprocess.run(cmd, shell=isinstance(cmd, str), capture_output=True, text=True, **kw)


def scratch_repo():
    d = tempfile.mkdtemp(prefix="verif-seed-")
    repo = os.path.join(d, "repo")
    shutil.copytree("/repo", repo, ignore=shutil.ignore_patterns(".git", "__pycache__", "bench", "SEEDED"))
    return d, repo


def suffix(v, rnd):
    k = ord(v) - ord("a") + 2 * (rnd - 1)
    return chr(ord("a") + k) if k < 26 else "z" + chr(ord("a") + k - 26)


def cmd_import(wt, pid, rnd=1):
    for v in ("A", "B"):
        src = os.path.join(wt, "SEEDED", v)
        if not os.path.isdir(src):
            continue
        letter = suffix(v.lower(), rnd)  # round 2 -> c, d; round 3 -> e, f; round 14 -> za, zb
        dst = os.path.join(SEEDED, f"{pid}-{letter}")
        os.makedirs(dst, exist_ok=True)
        for f in os.listdir(src):
            if f.startswith("__"):
                continue
            if os.path.isfile(os.path.join(src, f)):
                shutil.copy(os.path.join(src, f), os.path.join(dst, f))
        print("imported", dst)


def load_meta(name):
    p = os.path.join(SEEDED, name, "meta.json")
    return json.load(open(p)) if os.path.exists(p) else {}


def save_meta(name, meta):
    json.dump(meta, open(os.path.join(SEEDED, name, "meta.json"), "w"), indent=1)


def demos(name):
    d = os.path.join(SEEDED, name)
    return sorted(f for f in os.listdir(d) if f.startswith("demo") and f.endswith(".py"))


def run_demo(name, repo):
    out = []
    for demo in demos(name):
        path = os.path.join(SEEDED, name, demo)
        env = dict(os.environ, PYTHONPATH=repo, PYTHONDONTWRITEBYTECODE="1")
        if "def test_" in open(path).read() and "__main__" not in open(path).read():
            r = sh([PY, "-m", "pytest", "-q", "-p", "no:cacheprovider", "--timeout=300", path], env=env, cwd=repo, timeout=900)
        else:
            r = sh([PY, path], env=env, cwd=os.path.dirname(path), timeout=900)
        out.append((demo, r.returncode, (r.stdout + r.stderr)[-300:]))
    return out


def cmd_verify(names):
    for name in names:
        meta = load_meta(name)
        d, repo = scratch_repo()
        try:
            clean = run_demo(name, repo)
            r = sh(["git", "apply", "--unsafe-paths", "--directory", repo, os.path.join(SEEDED, name, "patch.diff")], cwd="/")
            if r.returncode:
                r = sh(["patch", "-p1", "-s", "-d", repo, "-i", os.path.join(SEEDED, name, "patch.diff")])
            applied = r.returncode == 0
            tests = sh(f"cd {repo} && PYTHONPATH={repo} {PY} -m pytest -q -p no:cacheprovider --timeout=900 tests 2>&1 | tail -1", timeout=1800).stdout.strip()
            bad = run_demo(name, repo) if applied else []
            ok = applied and BASELINE in tests and all(rc == 0 for _, rc, _ in clean) and all(rc != 0 for _, rc, _ in bad) and bool(bad)
            meta["verified_by_me"] = {
                "patch_applies_to_repo_head": applied,
                "repo_tests_with_patch": tests,
                "demo_without_patch": [(n, rc) for n, rc, _ in clean],
                "demo_with_patch": [(n, rc) for n, rc, _ in bad],
                "confirmed": ok,
                "repo_head": sh("git -C /repo rev-parse --short HEAD").stdout.strip(),
                "ran": "tools/seeded.py verify (scratch copy of /repo under /tmp, removed afterwards)",
            }
            save_meta(name, meta)
            print(name, "CONFIRMED" if ok else "NOT-CONFIRMED", tests, clean and [(n, rc) for n, rc, _ in clean], [(n, rc) for n, rc, _ in bad])
            if not ok:
                for n, rc, tail in clean + bad:
                    print("   ", n, rc, tail.replace("\n", " | ")[-200:])
        finally:
            shutil.rmtree(d, ignore_errors=True)


def cmd_check(names, tier="quick", props=None, seed="1"):
    for name in names:
        meta = load_meta(name)
        plist = props or meta.get("checked_with") or [meta.get("property", name.split("-")[0])]
        d, repo = scratch_repo()
        try:
            r = sh(["git", "apply", "--unsafe-paths", "--directory", repo, os.path.join(SEEDED, name, "patch.diff")], cwd="/")
            if r.returncode:
                r = sh(["patch", "-p1", "-s", "-d", repo, "-i", os.path.join(SEEDED, name, "patch.diff")])
            if r.returncode:
                print(name, "patch does not apply", r.stderr[-200:])
                continue
            res = meta.setdefault("detection", {})
            for prop in plist:
                env = dict(os.environ, VERIF_REPO=repo, VERIF_OUT=os.path.join(d, "out"), VERIF_SEED=seed, VERIF_NO_SHRINK="1")
                t0 = time.time()
                rr = sh([os.path.join(ROOT, "check"), prop, "--tier", tier], env=env, timeout=7200)
                sig = ""
                for line in rr.stdout.splitlines():
                    if line.startswith("violation detail:"):
                        sig = line[len("violation detail:"):].strip()[:200]
                res[f"{prop}:{tier}" + ("" if seed == "1" else f":seed{seed}")] = {"rc": rr.returncode, "wall_s": round(time.time() - t0, 1), "signature": sig}
                print(name, prop, tier, "rc", rr.returncode, round(time.time() - t0, 1), sig[:120], (rr.stdout + rr.stderr)[-200:] if rr.returncode == 2 else "")
            save_meta(name, meta)
        finally:
            shutil.rmtree(d, ignore_errors=True)


def cmd_table():
    lines = ["# Seeded defects", "",
             "Independent changes written by sub-agents that were given only the property text and a scratch worktree.",
             "Each was confirmed by `tools/seeded.py verify` (patch applies, the repo's 401 tests still pass, the demo fails",
             "with the change and passes without) and then run against the checks with `tools/seeded.py check`.", "",
             "| name | property | what | needs | confirmed | detection (check:tier -> rc) |", "|---|---|---|---|---|---|"]
    for name in sorted(os.listdir(SEEDED)):
        if not os.path.isdir(os.path.join(SEEDED, name)):
            continue
        m = load_meta(name)
        det = "; ".join(f"{k} -> {v['rc']}" for k, v in sorted(m.get("detection", {}).items()))
        lines.append(f"| {name} | {m.get('property','')} | {str(m.get('summary',''))[:160].replace('|','/')} | {str(m.get('needs',''))[:160].replace('|','/')} | {m.get('verified_by_me',{}).get('confirmed')} | {det} |")
    open(os.path.join(SEEDED, "README.md"), "w").write("\n".join(lines) + "\n")


def cmd_round(rnd):
    """Import every /tmp/wt<rnd>-Cnn/SEEDED, drop the worktree, verify and check; print only what needs attention."""
    import glob
    names = []
    for wt in sorted(glob.glob(f"/tmp/wt{rnd}-C??")):
        pid = wt[-3:]
        if not os.path.isfile(os.path.join(wt, "SEEDED", "B", "meta.json")) or pid in os.environ.get("SEEDED_SKIP", "").split(","):
            print("not ready:", wt)
            continue
        cmd_import(wt, pid, rnd)
        sh(["git", "-C", "/repo", "worktree", "remove", "--force", wt])
        for v in ("a", "b"):
            names.append(f"{pid}-{suffix(v, rnd)}")
    import io, contextlib
    buf = io.StringIO()
    with contextlib.redirect_stdout(buf):
        cmd_verify(names)
    for line in buf.getvalue().splitlines():
        if "NOT-CONFIRMED" in line or line.startswith("   "):
            print(line[:300])
    buf = io.StringIO()
    with contextlib.redirect_stdout(buf):
        cmd_check(names)
    for line in buf.getvalue().splitlines():
        if " rc 1 " not in line:
            print("MISSED/ERR:", line[:200])
    print("round", rnd, "processed", len(names), "changes")


def cmd_with(name, argv):
    """Run a command with VERIF_REPO pointing at a scratch copy that has the seeded change applied."""
    d, repo = scratch_repo()
    try:
        r = sh(["patch", "-p1", "-s", "-d", repo, "-i", os.path.join(SEEDED, name, "patch.diff")])
        if r.returncode:
            print("patch does not apply", r.stderr[-300:]); return
        env = dict(os.environ, VERIF_REPO=repo, VERIF_OUT=os.path.join(d, "out"), VERIF_NO_SHRINK="1", PYTHONPATH=ROOT)
        subprocess.run(argv, env=env, cwd=ROOT)
    finally:
        shutil.rmtree(d, ignore_errors=True)


if __name__ == "__main__":
    c = sys.argv[1]
    if c == "with":
        cmd_with(sys.argv[2], sys.argv[sys.argv.index("--") + 1:])
        sys.exit(0)
    if c == "round":
        cmd_round(int(sys.argv[2]))
    if c == "import":
        cmd_import(sys.argv[2], sys.argv[3], int(sys.argv[4]) if len(sys.argv) > 4 else 1)
    elif c == "verify":
        cmd_verify(sys.argv[2:])
    elif c == "check":
        args = sys.argv[2:]
        tier = "quick"
        props = None
        if "--tier" in args:
            i = args.index("--tier"); tier = args[i + 1]; del args[i:i + 2]
        if "--props" in args:
            i = args.index("--props"); props = args[i + 1].split(","); del args[i:i + 2]
        seed = "1"
        if "--seed" in args:  # a different seed shows which detections depend on the luck of one generated case
            i = args.index("--seed"); seed = args[i + 1]; del args[i:i + 2]
        cmd_check(args, tier, props, seed)
    cmd_table()
