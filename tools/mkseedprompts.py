#!/usr/bin/env python3
"""Write the prompts for a round of seeded-defect sub-agents: tools/mkseedprompts.py <round>

Each prompt holds only the property text, the scratch worktree path and the one-line summaries of the
changes earlier rounds proposed for that property (so the agent looks elsewhere).  Nothing from /verif's
machinery is given to the agents.  Output: /tmp/seed<round>-prompt-Cnn.txt (scratch, not referenced by any check).
"""
import json, os, re, sys

ROOT = os.path.dirname(os.path.dirname(os.path.abspath(__file__)))
rnd = int(sys.argv[1])
template = open("/tmp/seed5-prompt-C07.txt").read() if os.path.exists("/tmp/seed5-prompt-C07.txt") else None
props = {json.loads(l)["id"]: json.loads(l) for l in open(os.path.join(ROOT, "properties.jsonl"))}
HEAD = """You are helping evaluate a verification framework by writing *seeded defects* (realistic mutations) for the Python library esphome/aioesphomeapi.

You have your own scratch git worktree of the library at {wt} (work ONLY inside it; never touch /repo, and do NOT read or list anything under /verif - your work must be independent of it). Python interpreter: /venv/bin/python (3.12). The sandbox has no network. Run everything with PYTHONPATH={wt} so that the worktree's code is what gets imported (check with: PYTHONPATH={wt} /venv/bin/python -c "import aioesphomeapi; print(aioesphomeapi.__file__)"). Always give shell commands an explicit timeout (e.g. `timeout 600 ...`).

The semantic property under study (JSON, also at /tmp/prop-{pid}.json):

{prop}

Your task: produce TWO different, independent changes (call them A and B) to the library source (files under aioesphomeapi/, not tests) such that each one
  1. BREAKS the property above (a user relying on the property would be hurt),
  2. still imports/compiles, and the existing test suite still passes exactly as before: run
        cd {wt} && PYTHONPATH={wt} timeout 1500 /venv/bin/python -m pytest -q -p no:cacheprovider --timeout=900 tests 2>&1 | tail -3
     On the clean tree this gives "1 failed, 401 passed, 1 skipped" (the one failure, tests/test_util.py::test_create_eager_task_312, is pre-existing and unrelated). With your change the result must be the same: same single failure, 401 passed.
  3. looks like something a real developer could plausibly commit (a refactor, an "optimisation", a "simplification", a boundary slip, a moved statement) - not sabotage with magic constants or `if x == 1234`,
  4. needs something SPECIFIC to manifest: a particular interleaving or ordering of events, a crash/fault at a particular point, a multi-step sequence of operations, an unusual-but-legal input, or two cooperating edits that each look fine alone. It must NOT be something ordinary use (connect, send one command, receive one state) would expose at once.
Other people have already proposed the following changes for this property; do NOT repeat them or close variants of them (same function with the same kind of slip counts as a variant), find genuinely different root causes in different places:
{earlier}

Go for what is left: clauses of the statement, message types, argument/configuration combinations, platform behaviours (e.g. what asyncio transports, timers or the protobuf runtime actually do) and call paths that the list above does not touch. Think about what a careful reviewer would still wave through. A and B must have different root causes and ideally live in different functions/files and need different triggers. The change must break the property AS STATED (re-read the statement; a change whose only effect lies outside what the statement promises does not count).

For each change provide a demonstration: a small standalone Python program demo.py (plain script exiting 0 when the property holds and non-zero - with a short explanation printed - when it is violated; it may use asyncio, unittest.mock, and the helpers in the worktree's tests/ directory if you add the worktree to sys.path, but keep it self-contained otherwise; locate the library through `aioesphomeapi.__file__` / sys.path, never through a hard-coded /tmp path). The demo must FAIL with the change applied and PASS on the clean tree. Verify both yourself.

Deliverables, written inside the worktree (they are untracked files; do not commit anything):
  {wt}/SEEDED/A/patch.diff   - `git diff` of change A alone against the clean HEAD (must apply with `git apply` to a clean checkout)
  {wt}/SEEDED/A/demo.py
  {wt}/SEEDED/A/meta.json    - {{"property": "{pid}", "summary": "<what was changed, where>", "needs": "<what specific circumstance is needed for it to manifest, and what stays unaffected>", "tests_run": "<command + result line with the change>", "demo_with_change": "<command + exit code/output>", "demo_without_change": "<command + exit code/output>"}}
  and the same three files under {wt}/SEEDED/B/ for change B.
Procedure hint: make change A, run tests + demo, save `git diff -- aioesphomeapi > SEEDED/A/patch.diff`, then `git checkout -- aioesphomeapi` to restore the clean tree, confirm the demo passes, then do B the same way. Leave the worktree CLEAN (no source modifications) at the end, with only the SEEDED/ directory added. If a .pxd file declares the function you change (aioesphomeapi/*.pxd, _frame_helper/*.pxd), keep it consistent, but note that only the pure-Python modules are used here.

If a candidate change makes an existing test fail, pick another change (do not edit tests). Report at the end, briefly: for A and B, the file/function changed, the trigger needed, and the verification results.
"""
for pid, p in sorted(props.items()):
    earlier = []
    for name in sorted(os.listdir(os.path.join(ROOT, "seeded"))):
        if name.startswith(pid + "-") and os.path.exists(os.path.join(ROOT, "seeded", name, "meta.json")):
            m = json.load(open(os.path.join(ROOT, "seeded", name, "meta.json")))
            earlier.append("- " + re.sub(r"\s+", " ", str(m.get("summary", "")))[:330])
    wt = f"/tmp/wt{rnd}-{pid}"
    json.dump(p, open(f"/tmp/prop-{pid}.json", "w"), indent=1)
    open(f"/tmp/seed{rnd}-prompt-{pid}.txt", "w").write(HEAD.format(wt=wt, pid=pid, prop=json.dumps(p, indent=1), earlier="\n".join(earlier)))
    print(pid, len(earlier), "earlier")
