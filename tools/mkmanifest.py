#!/venv/bin/python
"""Regenerate MANIFEST.json from tools/manifest_src.json (per-property texts)
and the set of property modules that exist.  Validates against the schema."""
import json, os, sys
ROOT = os.path.dirname(os.path.dirname(os.path.abspath(__file__)))
sys.path.insert(0, os.path.join(ROOT, ".deps"))
src = json.load(open(os.path.join(ROOT, "tools", "manifest_src.json")))
props = [json.loads(l) for l in open(os.path.join(ROOT, "properties.jsonl"))]
checks, na = [], []
for p in props:
    pid = p["id"]
    e = src["checks"].get(pid)
    have = os.path.exists(os.path.join(ROOT, "vf", "props", pid.lower() + ".py"))
    if e and have and not e.get("disabled"):
        checks.append({
            "property_id": pid,
            "quick_cmd": f"./check {pid} --tier quick",
            "thorough_cmd": f"./check {pid} --tier thorough",
            "evidence_file": f"/verif/evidence/{pid}.json",
            "replay_cmd_template": f"./check {pid} --replay {{path}}",
            "engine": e.get("engine", "hypothesis+enumeration"),
            "level_claimed": {"category": e["category"], "text": e["text"], "design_ref": e.get("design_ref", f"DESIGN.md section 5, {pid}")},
            "level_note": e["note"],
            "technique": e["technique"],
        })
    else:
        na.append({"property_id": pid, "reason": (e or {}).get("na_reason", "check not built yet (work in progress); see DESIGN.md section 5 for the planned generator and oracle")})
m = {
    "version": 1,
    "setup_cmd": "sh ./setup.sh",
    "hooks": src["hooks"],
    "engines": src["engines"],
    "checks": checks,
    "notes": src["notes"],
    "not_applicable": na,
}
try:
    import jsonschema
    jsonschema.validate(m, json.load(open("/root/.vp/MANIFEST.schema.json")))
except ImportError:
    print("jsonschema not available; not validated")
json.dump(m, open(os.path.join(ROOT, "MANIFEST.json"), "w"), indent=1)
print("MANIFEST.json:", len(checks), "checks,", len(na), "not_applicable")
