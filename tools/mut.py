#!/venv/bin/python
"""Sensitivity (mutation) runs.

  tools/mut.py run <mutation-id>...      run the listed mutations (default: all)
  tools/mut.py table                     rewrite SENSITIVITY.md from the last results

Each mutation is applied to a scratch copy of /repo's working tree under
/tmp/verif-mut-*/ (removed afterwards) and the property's quick check runs with
VERIF_REPO pointing at the copy and VERIF_OUT at a scratch dir.
Nothing here is referenced by MANIFEST.json.
"""
import json, os, shutil, subprocess, sys, tempfile, time
from concurrent.futures import ThreadPoolExecutor

ROOT = os.path.dirname(os.path.dirname(os.path.abspath(__file__)))
MUTS = os.path.join(ROOT, "tools", "mutations.json")
RES = os.path.join(ROOT, "tools", "mutation_results.json")


def run_one(m, tier="quick", seed="1"):
    d = tempfile.mkdtemp(prefix="verif-mut-")
    try:
        repo = os.path.join(d, "repo")
        shutil.copytree("/repo", repo, ignore=shutil.ignore_patterns(".git", "__pycache__", "tests", "bench"))
        if "patch" in m:
            r = subprocess.run(["patch", "-p1", "-s", "-d", repo, "-i", os.path.join(ROOT, m["patch"])], capture_output=True, text=True)
            if r.returncode:
                return {"id": m["id"], "status": "apply-failed", "detail": r.stdout + r.stderr}
        else:
            path = os.path.join(repo, m["file"])
            s = open(path).read()
            if s.count(m["old"]) != 1:
                return {"id": m["id"], "status": "apply-failed", "detail": f"{s.count(m['old'])} occurrences of old text"}
            open(path, "w").write(s.replace(m["old"], m["new"]))
        out = {}
        for prop in m["props"]:
            env = dict(os.environ, VERIF_REPO=repo, VERIF_OUT=os.path.join(d, "out"), VERIF_SEED=seed, VERIF_NO_SHRINK="1")
            t0 = time.time()
            r = subprocess.run([os.path.join(ROOT, "check"), prop, "--tier", tier], capture_output=True, text=True, env=env, timeout=3600)
            sig = ""
            for line in r.stdout.splitlines():
                if line.startswith("violation detail:"):
                    sig = line[len("violation detail:"):].strip()[:160]
            out[prop] = {"rc": r.returncode, "wall": round(time.time() - t0, 1), "sig": sig,
                         "tail": (r.stdout + r.stderr)[-300:] if r.returncode not in (0, 1) else ""}
        return {"id": m["id"], "status": "ran", "results": out}
    finally:
        shutil.rmtree(d, ignore_errors=True)


def main():
    muts = json.load(open(MUTS))
    cmd = sys.argv[1] if len(sys.argv) > 1 else "run"
    if cmd == "run":
        want = set(sys.argv[2:])
        sel = [m for m in muts if not want or m["id"] in want or any(p in want for p in m["props"])]
        results = json.load(open(RES)) if os.path.exists(RES) else {}
        with ThreadPoolExecutor(max_workers=int(os.environ.get("MUT_JOBS", "4"))) as ex:
            for m, r in zip(sel, ex.map(run_one, sel)):
                results[m["id"]] = r
                print(json.dumps(r)[:400])
        json.dump(results, open(RES, "w"), indent=1, sort_keys=True)
    table(muts)


def table(muts):
    results = json.load(open(RES)) if os.path.exists(RES) else {}
    lines = ["# Sensitivity runs (hand-run, `tools/mut.py run`)", "",
             "Each row: a deliberate break applied to a scratch copy of the tree, and the exit code of the",
             "property's *quick* check against it (1 = caught, 0 = missed, 2 = harness error).", "",
             "| mutation | property | file | change | quick rc | wall s | first signature |", "|---|---|---|---|---|---|---|"]
    for m in muts:
        r = results.get(m["id"])
        for prop in m["props"]:
            if r and r.get("status") == "ran":
                x = r["results"][prop]
                lines.append(f"| {m['id']} | {prop} | {m.get('file', m.get('patch'))} | {m['what']} | {x['rc']} | {x['wall']} | {x['sig'][:90].replace('|','/')} |")
            else:
                lines.append(f"| {m['id']} | {prop} | {m.get('file', m.get('patch'))} | {m['what']} | {r['status'] if r else 'not run'} | | |")
    open(os.path.join(ROOT, "SENSITIVITY.md"), "w").write("\n".join(lines) + "\n")


if __name__ == "__main__":
    main()
