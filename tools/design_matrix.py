#!/venv/bin/python
"""Rewrite the seeded-change detection matrix inside DESIGN.md (between the SEEDED-MATRIX markers)
from seeded/*/meta.json."""
import json, os, re
ROOT = os.path.dirname(os.path.dirname(os.path.abspath(__file__)))
rows = []
for n in sorted(os.listdir(os.path.join(ROOT, "seeded"))):
    q = os.path.join(ROOT, "seeded", n, "meta.json")
    if not os.path.exists(q):
        continue
    m = json.load(open(q))
    det = m.get("detection", {})
    cell = "; ".join(f"{k} rc={v['rc']} `{v.get('signature', '').split(' :: ')[0][:70]}`" for k, v in sorted(det.items()))
    rows.append("| %s | %s | %s |" % (n, str(m.get("summary", ""))[:140].replace("\n", " ").replace("|", "/"), cell))
table = "| change | what it does | detected by |\n|---|---|---|\n" + "\n".join(rows) + "\n"
p = os.path.join(ROOT, "DESIGN.md")
s = open(p).read()
b, e = "<!-- SEEDED-MATRIX-BEGIN -->", "<!-- SEEDED-MATRIX-END -->"
if b in s:
    s = s[: s.index(b) + len(b)] + "\n" + table + s[s.index(e):]
else:
    i = s.index("| change | what it does | detected by |")
    s = s[:i] + b + "\n" + table + e + "\n"
open(p, "w").write(s)
print(len(rows), "rows")
