"""Reference Noise_NNpsk0_25519_ChaChaPoly_SHA256 responder.

Handshake: the stock `noise.connection.NoiseConnection` with the library's
*default* backend (not the client's ESPHomeNoiseBackend / reusable cipher /
PACK_NONCE wrappers).  After the split the transport keys are read out of the
responder's cipher states and every data frame is encrypted / decrypted with
`cryptography`'s ChaCha20Poly1305 under an EXPLICIT nonce
(00000000 || LE64(n)), so nonce continuity of the client is checked, not
assumed.
"""
from __future__ import annotations

import struct

from cryptography.exceptions import InvalidTag
from cryptography.hazmat.primitives.ciphers.aead import ChaCha20Poly1305
from noise.connection import NoiseConnection

from . import wire

PROLOGUE = b"NoiseAPIInit\x00\x00"
NAME = b"Noise_NNpsk0_25519_ChaChaPoly_SHA256"


# ---------------------------------------------------------------------------
# Determinism: the X25519 ephemeral keys of BOTH sides come from the noise
# library's ED25519.generate_keypair (os.urandom underneath).  A run must be a pure
# function of the case, so that third-party generator is replaced by a counter-based
# one; `reset_ephemerals(n)` is called at the start of every case.
_EPH = [0]


def _det_generate_keypair(self):
    import hashlib

    from noise.backends.default.keypairs import KeyPair25519

    _EPH[0] += 1
    return KeyPair25519.from_private_bytes(hashlib.sha256(b"vf-ephemeral-%d" % _EPH[0]).digest())


def reset_ephemerals(n: int = 0) -> None:
    from noise.backends.default.diffie_hellmans import ED25519

    if ED25519.generate_keypair is not _det_generate_keypair:
        ED25519.generate_keypair = _det_generate_keypair
    _EPH[0] = n * 1000


def nonce(n: int) -> bytes:
    return b"\x00\x00\x00\x00" + struct.pack("<Q", n)


class Responder:
    """Device side of one Noise session."""

    def __init__(self, psk: bytes, prologue: bytes = PROLOGUE) -> None:
        p = NoiseConnection.from_name(NAME)
        p.set_as_responder()
        p.set_psks(psk)
        p.set_prologue(prologue)
        p.start_handshake()
        self._p = p
        self.k_send: bytes | None = None  # device -> client
        self.k_recv: bytes | None = None  # client -> device
        self.n_send = 0
        self.n_recv = 0

    def accept_client_handshake(self, handshake_body: bytes, payload: bytes = b"") -> bytes:
        """`handshake_body` = client's frame body (0x00 || e || tag); `payload` = the handshake payload the
        responder attaches to its own message (Noise allows any; ESPHome firmware sends none).

        Returns the responder's handshake frame body (0x00 || e || enc(payload) || tag).
        Raises on authentication failure (wrong key / prologue)."""
        if not handshake_body or handshake_body[0] != 0:
            raise ValueError("client handshake frame must start with 0x00")
        self._p.read_message(handshake_body[1:])
        out = bytes(self._p.write_message(payload))
        np = self._p.noise_protocol
        # responder: cipher_state_encrypt = device->client, decrypt = client->device
        self.k_send = bytes(np.cipher_state_encrypt.k)
        self.k_recv = bytes(np.cipher_state_decrypt.k)
        return b"\x00" + out

    # data phase, explicit nonces -------------------------------------------
    def encrypt_next(self, msg_type: int, payload: bytes) -> bytes:
        """Body of the next data frame device->client."""
        ct = ChaCha20Poly1305(self.k_send).encrypt(nonce(self.n_send), wire.enc_noise_inner(msg_type, payload), None)
        self.n_send += 1
        return ct

    def encrypt_raw_next(self, plaintext: bytes) -> bytes:
        ct = ChaCha20Poly1305(self.k_send).encrypt(nonce(self.n_send), plaintext, None)
        self.n_send += 1
        return ct

    def decrypt_at(self, body: bytes, n: int) -> bytes:
        """Decrypt a client frame body under explicit nonce n (raises InvalidTag)."""
        return ChaCha20Poly1305(self.k_recv).decrypt(nonce(n), body, None)

    def decrypt_next(self, body: bytes) -> tuple[int, int, bytes]:
        pt = self.decrypt_at(body, self.n_recv)
        self.n_recv += 1
        return wire.dec_noise_inner(pt)


def split_client_hello(first_write: bytes) -> tuple[bytes, bytes]:
    """Client's first buffer = frame(empty hello) + frame(0x00||handshake).

    -> (hello body, handshake body); raises ValueError when malformed."""
    frames, rest = wire.parse_noise_outer(first_write)
    if rest != len(first_write) or len(frames) != 2:
        raise ValueError(f"client hello must be exactly two complete frames, got {len(frames)} rest={rest}")
    return frames[0][0], frames[1][0]


def server_hello(name: bytes | None, proto: int = 1) -> bytes:
    """Server hello frame body: chosen proto byte [+ name + NUL]."""
    if name is None:
        return bytes([proto])
    return bytes([proto]) + name + b"\x00"


__all__ = ["Responder", "split_client_hello", "server_hello", "InvalidTag", "nonce"]
