"""Descriptor-driven Hypothesis strategies for protobuf messages.

A generated message is represented as a JSON-able *spec*:
    {field_name: value}   value = int | bool | str | {"f32": bits} | {"hex": ..} | [..] | {..nested..}
`build(cls, spec)` makes the message; every generated message is serialised and
re-parsed before use so only wire-valid values reach the code under test.
"""
from __future__ import annotations

import struct

from google.protobuf.descriptor import FieldDescriptor as FD
from hypothesis import strategies as st

INT_BOUNDS = {
    FD.TYPE_INT32: (-(2**31), 2**31 - 1),
    FD.TYPE_SINT32: (-(2**31), 2**31 - 1),
    FD.TYPE_SFIXED32: (-(2**31), 2**31 - 1),
    FD.TYPE_UINT32: (0, 2**32 - 1),
    FD.TYPE_FIXED32: (0, 2**32 - 1),
    FD.TYPE_INT64: (-(2**63), 2**63 - 1),
    FD.TYPE_SINT64: (-(2**63), 2**63 - 1),
    FD.TYPE_SFIXED64: (-(2**63), 2**63 - 1),
    FD.TYPE_UINT64: (0, 2**64 - 1),
    FD.TYPE_FIXED64: (0, 2**64 - 1),
}


def f32_from_bits(bits: int) -> float:
    return struct.unpack("<f", struct.pack("<I", bits & 0xFFFFFFFF))[0]


def f32_bits(x: float) -> int:
    return struct.unpack("<I", struct.pack("<f", x))[0]


SPECIAL_F32 = [
    0x00000000, 0x80000000, 0x3F800000, 0xBF800000, 0x7F800000, 0xFF800000, 0x7FC00000,
    0x00000001, 0x007FFFFF, 0x00800000, 0x7F7FFFFF, 0x3DCCCCCD, 0x41A00000, 0x42C80000, 0x3F000000,
    0x461C4000, 0x4B189680, 0x322BCC77, 0x501502F9,
]


def f32_bits_strategy():
    return st.one_of(
        st.sampled_from(SPECIAL_F32),
        st.integers(0, 2**32 - 1),
        # decimal-looking values as a device would send them
        st.builds(lambda m, e, s: f32_bits((-1 if s else 1) * m * 10.0**e), st.integers(0, 99999), st.integers(-6, 6), st.booleans()),
    )


def int_strategy(lo: int, hi: int):
    edge = sorted({lo, hi, 0, 1, -1, 2, 127, 128, 255, 256, 65535, 65536} & set(range(lo, hi + 1)) if hi - lo < 10**6 else
                  {x for x in (lo, hi, 0, 1, -1, 2, 127, 128, 255, 256, 65535, 65536, lo + 1, hi - 1) if lo <= x <= hi})
    return st.one_of(st.sampled_from(sorted(edge)), st.integers(lo, hi), st.integers(max(lo, 0), min(hi, 1000)))


def enum_numbers(enum_desc, undefined: bool = True):
    defined = sorted({v.number for v in enum_desc.values})
    parts = [st.sampled_from(defined), st.sampled_from(defined)]
    if undefined:
        und = [x for x in (max(defined) + 1, max(defined) + 2, 99, 2**31 - 1, -1) if x not in defined]
        parts.append(st.sampled_from(und))
    return st.one_of(*parts)


TEXT = st.one_of(
    st.sampled_from(["", "a", "dev", "living_room", "°C", "ünïcödé ✓", "x" * 70, "0", " ", "\x00"]),
    st.text(max_size=12),
)


def field_strategy(fd, depth: int, overrides: dict | None = None, undefined_enums: bool = True):
    key = f"{fd.containing_type.name}.{fd.name}"
    if overrides and key in overrides:
        return overrides[key]
    t = fd.type
    if t == FD.TYPE_MESSAGE:
        elem = spec_strategy(fd.message_type, depth + 1, overrides, undefined_enums)
    elif t == FD.TYPE_ENUM:
        elem = enum_numbers(fd.enum_type, undefined_enums)
    elif t == FD.TYPE_BOOL:
        elem = st.booleans()
    elif t == FD.TYPE_STRING:
        elem = TEXT
    elif t == FD.TYPE_BYTES:
        elem = st.binary(max_size=16).map(lambda b: {"hex": b.hex()})
    elif t == FD.TYPE_FLOAT:
        elem = f32_bits_strategy().map(lambda b: {"f32": b})
    elif t == FD.TYPE_DOUBLE:
        elem = st.floats(allow_nan=False).map(lambda x: {"f64": x.hex()})
    elif t in INT_BOUNDS:
        elem = int_strategy(*INT_BOUNDS[t])
    else:
        raise NotImplementedError(f"field type {t} of {key}")
    if fd.is_repeated:
        return st.lists(elem, max_size=4 if depth == 0 else 2)
    return elem


def spec_strategy(desc, depth: int = 0, overrides: dict | None = None, undefined_enums: bool = True):
    """Strategy for a spec dict of message `desc`; each field present with prob ~0.7."""
    fields = list(desc.fields)

    @st.composite
    def build_spec(draw):
        out = {}
        allf = draw(st.integers(0, 3)) == 0
        for fd in fields:
            if depth >= 3 and fd.type == FD.TYPE_MESSAGE:
                continue
            if allf or draw(st.integers(0, 9)) < 7:
                out[fd.name] = draw(field_strategy(fd, depth, overrides, undefined_enums))
        return out

    return build_spec()


def _conv(fd, v):
    t = fd.type
    if t == FD.TYPE_FLOAT:
        return f32_from_bits(v["f32"])
    if t == FD.TYPE_DOUBLE:
        return float.fromhex(v["f64"])
    if t == FD.TYPE_BYTES:
        return bytes.fromhex(v["hex"])
    return v


def build(cls, spec: dict):
    """spec -> message (round-tripped through the wire so it is wire-valid)."""
    msg = cls()
    _fill(msg, spec)
    data = msg.SerializeToString()
    out = cls()
    out.MergeFromString(data)
    return out


def _fill(msg, spec: dict) -> None:
    desc = msg.DESCRIPTOR
    for name, v in spec.items():
        fd = desc.fields_by_name[name]
        if fd.type == FD.TYPE_MESSAGE:
            if fd.is_repeated:
                for item in v:
                    _fill(getattr(msg, name).add(), item)
            else:
                sub = getattr(msg, name)
                sub.SetInParent()
                _fill(sub, v)
        elif fd.is_repeated:
            getattr(msg, name).extend([_conv(fd, x) for x in v])
        else:
            setattr(msg, name, _conv(fd, v))


def message_strategy(cls, overrides: dict | None = None, undefined_enums: bool = True):
    """Strategy yielding specs for message class `cls` (use build(cls, spec))."""
    return spec_strategy(cls.DESCRIPTOR, 0, overrides, undefined_enums)
