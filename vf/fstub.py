"""Layer F: stub connection + stub transport around a real frame helper."""
from __future__ import annotations

import asyncio
import logging

logging.getLogger("aioesphomeapi").setLevel(logging.CRITICAL)
logging.getLogger("aioesphomeapi").propagate = False
logging.getLogger("aioesphomeapi").addHandler(logging.NullHandler())
# layer F never awaits ready_future; "Future exception was never retrieved" is expected noise there
logging.getLogger("asyncio").setLevel(logging.CRITICAL)

_LOOP = None


def loop() -> asyncio.AbstractEventLoop:
    """One private loop per process; only used to mint futures at layer F."""
    global _LOOP
    if _LOOP is None or _LOOP.is_closed():
        _LOOP = asyncio.new_event_loop()
    asyncio.set_event_loop(_LOOP)
    return _LOOP


class StubTransport:
    def __init__(self) -> None:
        self.writes: list[bytes] = []
        self.objs: list = []  # the objects themselves (a real transport may hold on to them while the socket is congested)
        self.closed = False
        self.close_calls = 0
        self.write_types: list[type] = []

    fail_next = None  # an exception the next write() raises (closed handle: RuntimeError on uvloop, OSError elsewhere)

    def write(self, data) -> None:
        if self.fail_next is not None:
            exc, self.fail_next = self.fail_next, None
            raise exc
        self.write_types.append(type(data))
        self.writes.append(bytes(data))
        self.objs.append(data)

    def close(self) -> None:
        self.close_calls += 1
        self.closed = True

    def is_closing(self) -> bool:
        return self.closed

    def get_extra_info(self, *_a, **_k):
        return None


class StubConnection:
    """Stands in for APIConnection: records deliveries and fatal errors.

    `report_fatal_error` closes the helper as APIConnection._cleanup does.
    """

    def __init__(self) -> None:
        self.packets: list[tuple[int, object]] = []
        self.errors: list[BaseException] = []
        self.helper = None
        self.close_on_error = True

    def process_packet(self, msg_type: int, data) -> None:
        self.packets.append((msg_type, data))

    def report_fatal_error(self, err: BaseException) -> None:
        self.errors.append(err)
        if self.close_on_error and self.helper is not None:
            self.helper.close()


def sim_loop():
    """A virtual-clock loop for layer-F cases in which time passes between chunks (caller disposes it)."""
    global _LOOP
    from .simloop import SimLoop

    lp = SimLoop()
    asyncio.set_event_loop(lp)
    _LOOP = None  # the next plain case mints a fresh private loop
    return lp


def advance(lp, seconds: float) -> None:
    """Let `seconds` of virtual time pass: every ready callback and every timer due until then runs."""
    lp.horizon = lp.time() + seconds
    lp.sim_after(seconds, lambda: None)
    lp.run_until_quiescent()
    lp.horizon = None


def make_plain(sim=None):
    from aioesphomeapi._frame_helper.plain_text import APIPlaintextFrameHelper

    if sim is None:
        loop()
    conn = StubConnection()
    h = APIPlaintextFrameHelper(connection=conn, client_info="verif", log_name="verif")
    conn.helper = h
    tr = StubTransport()
    h.connection_made(tr)
    return h, conn, tr


def make_noise(psk_b64: str, expected_name, eph: int = 0, sim=None):
    from aioesphomeapi._frame_helper.noise import APINoiseFrameHelper

    from . import noise_ref

    noise_ref.reset_ephemerals(eph)
    if sim is None:
        loop()
    conn = StubConnection()
    h = APINoiseFrameHelper(
        connection=conn, noise_psk=psk_b64, expected_name=expected_name, client_info="verif", log_name="verif"
    )
    conn.helper = h
    tr = StubTransport()
    h.connection_made(tr)
    return h, conn, tr


KINDS = ("bytes", "bytearray", "memoryview", "memoryview-slice")


def as_kind(chunk: bytes, kind: int):
    k = kind % 4
    if k == 0:
        return bytes(chunk)
    if k == 1:
        return bytearray(chunk)
    if k == 2:
        return memoryview(bytes(chunk))
    pad = b"\xaa\x00\x01" + bytes(chunk) + b"\x00\x55"
    return memoryview(pad)[3 : 3 + len(chunk)]


def as_kind_recycled(chunk: bytes, kind: int):
    """Like as_kind, but mutable kinds are views of a receive buffer the caller owns; returns (object, recycle)
    where recycle() overwrites that buffer (what a transport does with its read buffer once data_received
    has returned).  A helper that keeps a reference instead of a copy sees the scribble."""
    k = kind % 6
    if k == 0:
        return bytes(chunk), (lambda: None)
    if k == 1:
        buf = bytearray(chunk)
        obj = buf
    elif k == 2:
        buf = bytearray(chunk)
        obj = memoryview(buf)
    elif k in (4, 5) and len(chunk) and len(chunk) % (2 if k == 4 else 4) == 0:
        # bytes-like objects whose len() is an ITEM count, not a byte count (array('H') / cast('I') views)
        buf = bytearray(chunk)
        obj = memoryview(buf).cast("H" if k == 4 else "I")
    else:
        buf = bytearray(b"\xaa\x00\x01" + bytes(chunk) + b"\x00\x55")
        obj = memoryview(buf)[3 : 3 + len(chunk)]

    def recycle():
        for i in range(len(buf)):
            buf[i] = 0xFF

    return obj, recycle
