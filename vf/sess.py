"""Helpers for checks that need an *established* simulated session (layer S)."""
from __future__ import annotations

import base64

from .life import KEY
from .simloop import START
from .simnet import D, Env, make_client


class Session:
    """Env + APIClient brought to CONNECTED by the real connect(), then handed to the check."""

    def __init__(self, *, noise: bool = False, login: bool = True, keepalive: float = 32.0, api=(1, 10),
                 auto: set | None = None, name: str = "dev", expected_name: str | None = None) -> None:
        self.env = Env(noise_key=KEY if noise else None, name=name)
        env = self.env
        env.dev.api_version = api
        self.cli = make_client(
            env,
            noise_psk=base64.b64encode(KEY).decode() if noise else None,
            keepalive=keepalive,
            expected_name=expected_name,
        )
        self.stops: list = []
        self.login = login
        self.t0: float | None = None  # virtual time connect() returned
        self._after: list = []
        self.auto_after = auto

    async def _on_stop(self, expected: bool) -> None:
        self.env.log("on_stop", arg=expected)
        self.stops.append((self.env.loop.now(), expected))

    def start(self, then) -> None:
        """Connect, then call `then(session)` synchronously in the turn connect() returned."""
        env = self.env

        async def main():
            await self.cli.connect(on_stop=self._on_stop, login=self.login)
            self.t0 = env.loop.now()
            env.log("connected")
            if self.auto_after is not None:
                env.dev.auto = set(self.auto_after)
            r = then(self)
            if hasattr(r, "__await__"):
                await r

        env.loop.sim_at(0, lambda: env.spawn("main", main()))

    @property
    def conn(self):
        return self.env.conns[-1]

    @property
    def dsess(self):
        return self.env.dev.session

    def device_send_at(self, t_rel: float, *msgs_or_tp, raw: bytes | None = None) -> None:
        """Device chunk at absolute virtual time t_rel (seconds since loop epoch); frames encoded at send time."""
        env = self.env

        def go():
            s = env.dev.session
            tr = s.transport
            if tr.closing:
                env.log("device_send_skipped")
                return
            data = raw if raw is not None else b"".join(s.encode(m) for m in msgs_or_tp)
            tr.feed(data)

        env.loop.sim_at(t_rel, go)

    def run(self, horizon: float | None = None) -> None:
        if horizon is not None:
            self.env.loop.horizon = START + horizon
        self.env.run()

    def close(self) -> None:
        self.env.close()


def handler_snapshot(conn) -> dict:
    """Behavioural view of what is subscribed: message class name -> number of callbacks."""
    return {k.__name__: len(v) for k, v in conn._message_handlers.items() if v}
