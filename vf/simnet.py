"""SimNet – simulated sockets, transport and ESPHome device for layer S.

The real APIClient / APIConnection / ReconnectLogic run unmodified on a SimLoop.
Seams (all outside aioesphomeapi's own logic):
  * aiohappyeyeballs.start_connection      -> Env.tcp script
  * loop.create_connection(factory, sock=) -> SimTransport (selector-transport callback protocol)
  * loop.getaddrinfo                       -> Env.dns script
  * aioesphomeapi.client.APIConnection     -> TracedConnection (subclass logging state writes)
Everything observable goes into one globally sequenced trace.
"""
from __future__ import annotations

import asyncio
import logging
import socket
from typing import Any, Callable

import aiohappyeyeballs

from . import noise_ref, wire
from .simloop import START, SimLoop

logging.getLogger("aioesphomeapi").setLevel(logging.CRITICAL)
logging.getLogger("aioesphomeapi").propagate = False
if not logging.getLogger("aioesphomeapi").handlers:
    logging.getLogger("aioesphomeapi").addHandler(logging.NullHandler())
logging.getLogger("asyncio").setLevel(logging.CRITICAL)

D = 1 / 64  # default device / network latency (dyadic)

CURRENT: "Env | None" = None


# ---------------------------------------------------------------------------
# one-time process-wide seams
# ---------------------------------------------------------------------------
_INSTALLED = False


def install_seams() -> None:
    global _INSTALLED
    if _INSTALLED:
        return
    import aioesphomeapi.client as climod
    from aioesphomeapi.connection import APIConnection

    class TracedConnection(APIConnection):
        """Harness-side subclass: logs every write to the visible state."""

        __slots__ = ("_vf_id",)

        def __init__(self, *a, **k):
            env = CURRENT
            object.__setattr__(self, "_vf_id", env.new_conn_id(self) if env else -1)
            super().__init__(*a, **k)

        def __setattr__(self, k, v):
            super().__setattr__(k, v)
            if k == "connection_state" or k == "is_connected":
                env = CURRENT
                if env is not None:
                    env.log("state" if k == "connection_state" else "is_connected", conn=self._vf_id, value=v)

        async def start_connection(self):
            env = CURRENT
            if env is not None:
                env.log("conn_start_called", conn=self._vf_id)
            return await super().start_connection()

        def _add_message_callback_without_remove(self, on_message, msg_types):
            env = CURRENT
            if env is not None and env.log_subscriptions:
                env.log("subscribe", conn=self._vf_id, types=[getattr(t, "__name__", repr(t)) for t in msg_types])
            return super()._add_message_callback_without_remove(on_message, msg_types)

        def process_packet(self, msg_type_proto, data):
            env = CURRENT
            if env is not None:
                env.log("deliver", conn=self._vf_id, type=msg_type_proto, n=len(data))
            return super().process_packet(msg_type_proto, data)

    climod.APIConnection = TracedConnection

    async def start_connection(addr_infos, *, local_addr_infos=None, happy_eyeballs_delay=None, interleave=None, loop=None):
        env = CURRENT
        assert env is not None
        return await env._tcp_connect(addr_infos)

    aiohappyeyeballs.start_connection = start_connection
    _INSTALLED = True


# ---------------------------------------------------------------------------
class FakeSocket:
    _n = 100

    def __init__(self, env: "Env", peer: tuple) -> None:
        FakeSocket._n += 1
        self._fd = FakeSocket._n
        self.env = env
        self.closed = False
        self.type = socket.SOCK_STREAM
        self.family = socket.AF_INET6 if ":" in peer[0] else socket.AF_INET
        self.peer = peer
        self.opts: list = []
        self.idx = len(env.sockets)
        env.sockets.append(self)

    def _fault(self, where: str) -> None:
        """Scripted failure of a socket set-up call right after the TCP connect (env.sock_fault)."""
        if self.env.sock_fault == where:
            self.env.log("sock_fault", sock=self.idx, where=where)
            raise OSError(107, "Transport endpoint is not connected")

    def setblocking(self, b):
        self._fault("setblocking")

    def setsockopt(self, *a):
        if len(a) >= 2 and a[0] == socket.IPPROTO_TCP and a[1] == socket.TCP_NODELAY:
            self._fault("nodelay")
        if len(a) >= 2 and a[0] == socket.IPPROTO_TCP and a[1] == getattr(socket, "TCP_QUICKACK", -1):
            self._fault("quickack")
        if len(a) >= 2 and a[0] == socket.SOL_SOCKET and a[1] == socket.SO_RCVBUF:
            self._fault("rcvbuf")
        self.opts.append(a)

    def getpeername(self):
        self._fault("getpeername")
        return self.peer

    def getsockname(self):
        return ("10.0.0.2", 50000)

    def fileno(self):
        return -1 if self.closed else self._fd

    def close(self):
        if not self.closed:
            self.closed = True
            self.env.log("sock_close", sock=self.idx)


class SimTransport(asyncio.Transport):
    """Mirrors asyncio.selector_events._SelectorSocketTransport's callback protocol."""

    def __init__(self, env: "Env", proto, sock: FakeSocket, session: "DeviceSession") -> None:
        super().__init__()
        self.env = env
        self.loop = env.loop
        self.proto = proto
        self.sock = sock
        self.session = session
        self.closing = False
        self.conn_lost_called = False
        self.conn_lost_scheduled = False
        self.write_fail: tuple[str, BaseException] | None = None  # ("raise"|"fatal", exc)
        self.idx = len(env.transports)
        env.transports.append(self)
        self.n_writes = 0
        self.reading = False
        self._early: list = []
        # a peer that stops reading: the kernel send buffer fills up, writes stay in the transport's buffer and the
        # protocol is paused above the high-water mark (64 KiB); close() with a non-empty buffer defers
        # connection_lost until the buffer is flushed -- which never happens once the fd was closed under the transport
        self.stalled = False
        self.buffer = bytearray()
        self.proto_paused = False
        self._mutable_written: list = []
        self._mutation_logged = False
        self.conn_id = getattr(getattr(proto, "_connection", None), "_vf_id", None)
        env.log("transport_new", tr=self.idx, conn=self.conn_id, sock=sock.idx)

    # --- client side -------------------------------------------------------
    def write(self, data) -> None:
        if not isinstance(data, (bytes, bytearray, memoryview)):
            raise TypeError(f"data argument must be a bytes-like object, not {type(data).__name__!r}")
        if not data:
            return
        b = bytes(data)
        # a transport may keep the very object it was given until the kernel takes the bytes (it does whenever the
        # socket is congested): a caller that hands over a mutable buffer and changes it later corrupts its own stream
        for obj_, was_ in self._mutable_written:
            if bytes(obj_) != was_ and not self._mutation_logged:
                self._mutation_logged = True
                self.env.log("written_buffer_changed", tr=self.idx, n=len(was_))
        if isinstance(data, bytearray) or (isinstance(data, memoryview) and not data.readonly):
            self._mutable_written.append((data, b))
        self.n_writes += 1
        dead = self.sock.closed  # the connection already closed the socket under the transport
        self.env.log("write", tr=self.idx, data=b, closing=self.closing, dead=dead)
        if self.conn_lost_scheduled or (self.closing and not self.buffer):
            return  # dropped, like a real closing transport
        if self.buffer:  # (_conn_lost is still 0 while a closing transport waits to flush: writes are appended)
            self.buffer += b
            self._maybe_pause()
            return
        if dead:
            # sock.send on a closed socket: EBADF -> _fatal_error -> connection_lost(exc); nothing reaches the peer
            self._force_close(OSError(9, "Bad file descriptor"))
            return
        if self.write_fail is not None:
            how, exc = self.write_fail
            if how == "raise_once":
                self.write_fail = None
                raise exc
            if how == "raise":
                raise exc
            self._force_close(exc)
            return
        if self.stalled:
            self.buffer += b
            self._maybe_pause()
            return
        self.session.on_client_bytes(b)

    def _maybe_pause(self) -> None:
        if len(self.buffer) > 65536 and not self.proto_paused:
            self.proto_paused = True
            self.env.log("pause_writing", tr=self.idx)
            self.proto.pause_writing()

    def stall(self) -> None:
        if not self.closing:
            self.stalled = True
            self.env.log("stall", tr=self.idx)

    def unstall(self) -> None:
        """The peer reads again: the buffer drains (unless the fd is gone: then the selector never fires again)."""
        if not self.stalled:
            return
        self.stalled = False
        self.env.log("unstall", tr=self.idx, buffered=len(self.buffer), dead=self.sock.closed)
        if self.conn_lost_scheduled or self.sock.closed:
            self.buffer.clear()
            return
        if self.buffer:
            data = bytes(self.buffer)
            self.buffer.clear()
            self.session.on_client_bytes(data)
        if self.proto_paused:
            self.proto_paused = False
            self.env.log("resume_writing", tr=self.idx)
            self.proto.resume_writing()
        if self.closing:
            self._schedule_lost(None)

    def writelines(self, lines) -> None:
        self.write(b"".join(lines))

    def is_closing(self) -> bool:
        return self.closing

    def close(self) -> None:
        if self.closing:
            return
        self.closing = True
        self.env.log("transport_close", tr=self.idx, buffered=len(self.buffer))
        if not self.buffer:
            self._schedule_lost(None)

    def abort(self) -> None:
        self._force_close(None)

    def get_extra_info(self, name, default=None):
        if name == "socket":
            return self.sock
        if name == "peername":
            return self.sock.peer
        return default

    def pause_reading(self):
        pass

    def resume_reading(self):
        pass

    def set_write_buffer_limits(self, high=None, low=None):
        pass

    def get_write_buffer_size(self):
        return len(self.buffer)

    def _force_close(self, exc) -> None:
        if self.conn_lost_scheduled:
            return
        if not self.closing:
            self.closing = True
            self.env.log("transport_close", tr=self.idx, forced=True)
        self.buffer.clear()
        self._schedule_lost(exc)

    def _schedule_lost(self, exc) -> None:
        if self.conn_lost_scheduled:
            return
        self.conn_lost_scheduled = True
        self.loop.call_soon(self._call_connection_lost, exc)

    def _call_connection_lost(self, exc) -> None:
        if self.conn_lost_called:
            return
        self.conn_lost_called = True
        self.env.log("connection_lost", tr=self.idx, exc=type(exc).__name__ if exc else None)
        try:
            self.proto.connection_lost(exc)
        finally:
            self.sock.close()

    # --- device side -------------------------------------------------------
    def _start_reading(self) -> None:
        """The selector transport adds its reader one call_soon after connection_made;
        whatever the peer sent earlier sits in the kernel buffer until then."""
        self.reading = True
        q, self._early = self._early, []
        for fn, args in q:
            self.loop.sim_after(0, fn, *args)

    def feed(self, data: bytes) -> None:
        """A chunk arrives from the device (one data_received call)."""
        if not self.reading:
            self._early.append((self.feed, (data,)))
            return
        if self.closing:
            self.env.log("feed_dropped", tr=self.idx, n=len(data))
            return
        self.env.log("feed", tr=self.idx, data=bytes(data))
        try:
            self.proto.data_received(data)
        except (SystemExit, KeyboardInterrupt):
            raise
        except BaseException as exc:  # noqa: BLE001
            self.env.log("data_received_raised", tr=self.idx, exc=type(exc).__name__, text=str(exc)[:200])
            self._force_close(exc)

    def feed_eof(self) -> None:
        if not self.reading:
            self._early.append((self.feed_eof, ()))
            return
        if self.closing:
            return
        self.env.log("eof", tr=self.idx)
        try:
            keep = self.proto.eof_received()
        except BaseException as exc:  # noqa: BLE001
            self._force_close(exc)
            return
        if not keep:
            self.close()

    def reset(self, exc: BaseException | None = None) -> None:
        if not self.reading:
            self._early.append((self.reset, (exc,)))
            return
        if self.closing:
            return
        self.env.log("reset", tr=self.idx)
        self._force_close(exc or ConnectionResetError(104, "Connection reset by peer"))


# ---------------------------------------------------------------------------
class DeviceSession:
    """Device side of one TCP connection (framing state lives here)."""

    def __init__(self, dev: "SimDevice", idx: int) -> None:
        self.dev = dev
        self.env = dev.env
        self.idx = idx
        self.transport: SimTransport | None = None
        self.rxbuf = b""
        self.rx: list[tuple[int, int, bytes]] = []  # (trace seq, type, payload)
        self.noise: noise_ref.Responder | None = None
        self.noise_stage = 0  # 0 expect hello, 1 expect handshake, 2 data, -1 failed
        self.broken = False
        self._next_feed = 0.0  # absolute virtual time; keeps device->client order
        self.inflight = 0  # chunks sent by the device that have not reached the client yet
        self.wire_errors: list[str] = []

    # ---- client -> device
    def on_client_bytes(self, data: bytes) -> None:
        self.rxbuf += data
        dev = self.dev
        if self.broken:
            return
        if dev.noise_key is None:
            try:
                frames, rest = wire.parse_plain_stream(self.rxbuf)
            except wire.PlainParseError as e:
                if self.rxbuf[:1] == b"\x01" and dev.on_noise_client is not None:
                    self.broken = True
                    dev.on_noise_client(self)
                    return
                self.wire_errors.append(str(e))
                self.env.log("device_wire_error", sess=self.idx, text=str(e))
                self.broken = True
                return
            self.rxbuf = self.rxbuf[rest:]
            for t, p, _ in frames:
                self._got(t, p)
            dev._flush_hello(self)
        else:
            try:
                bodies, rest = wire.parse_noise_outer(self.rxbuf)
            except wire.PlainParseError as e:
                if self.rxbuf[:1] == b"\x00" and dev.on_plain_client is not None:
                    self.broken = True
                    dev.on_plain_client(self)
                    return
                self.wire_errors.append(str(e))
                self.env.log("device_wire_error", sess=self.idx, text=str(e))
                self.broken = True
                return
            self.rxbuf = self.rxbuf[rest:]
            for body, _ in bodies:
                self._got_noise(body)
            dev._flush_hello(self)

    def _got_noise(self, body: bytes) -> None:
        dev = self.dev
        if self.noise_stage == 0:
            self.noise_stage = 1
            self.env.log("rx_noise_hello", sess=self.idx, body=body)
            return
        if self.noise_stage == 1:
            self.env.log("rx_noise_handshake", sess=self.idx, n=len(body))
            if getattr(dev, "noise_mute", False):
                return  # accepts TCP, reads the client's hello + handshake, never answers (handshake stays pending)
            r = noise_ref.Responder(dev.noise_key)
            try:
                answer = r.accept_client_handshake(body, getattr(dev, 'noise_hs_payload', b''))
            except Exception as e:  # noqa: BLE001 – wrong key: answer with an error frame, never raise into write()
                self.noise_stage = -1
                self.env.log("device_handshake_reject", sess=self.idx, text=type(e).__name__)
                hello = wire.enc_noise_outer(noise_ref.server_hello(dev.noise_name))
                self.send_raw(hello + wire.enc_noise_outer(b"\x01Handshake MAC failure"))
                return
            self.noise = r
            self.noise_stage = 2
            if dev.noise_handshake_hook is not None:
                dev.noise_handshake_hook(self, answer)
            else:
                hello = wire.enc_noise_outer(noise_ref.server_hello(dev.noise_name))
                self.send_raw(hello + wire.enc_noise_outer(answer))
            return
        if self.noise_stage == 2:
            try:
                t, ln, p = self.noise.decrypt_next(body)
            except Exception as e:  # noqa: BLE001
                self.wire_errors.append(f"noise decrypt failed: {type(e).__name__}")
                self.env.log("device_wire_error", sess=self.idx, text=f"decrypt {type(e).__name__}")
                self.broken = True
                return
            if ln != len(p):
                self.wire_errors.append(f"noise inner length {ln} != {len(p)}")
                self.env.log("device_wire_error", sess=self.idx, text="inner length")
            self._got(t, p)

    def _got(self, t: int, p: bytes) -> None:
        seq = self.env.log("rx", sess=self.idx, type=t, payload=p)
        self.rx.append((seq, t, p))
        self.dev.handle(self, t, p)

    # ---- device -> client
    def encode(self, msg_or_tp) -> bytes:
        """Frame bytes for a protobuf message or a raw (type, payload) pair.
        Noise: consumes the next send nonce, so encode in sending order."""
        if isinstance(msg_or_tp, tuple):
            t, p = msg_or_tp
        else:
            t, p = wire.ids()[1][type(msg_or_tp)], msg_or_tp.SerializeToString()
        if self.dev.noise_key is None:
            return wire.enc_plain(t, p)
        if self.noise is None:
            raise RuntimeError("noise session not established on the device side")
        return wire.enc_noise_outer(self.noise.encrypt_next(t, p))

    def send_raw(self, data: bytes, delay: float | None = None, cuts: list[int] | None = None) -> None:
        """Feed `data` to the client `delay` from now (ordered after earlier sends)."""
        loop = self.env.loop
        delay = self.dev.latency if delay is None else delay
        when = max(loop.time() + delay, self._next_feed)
        self._next_feed = when
        tr = self.transport
        chunks = list(wire.iter_cut(data, sorted(c for c in (cuts or []) if 0 <= c <= len(data))))
        for ch in chunks:
            self.inflight += 1
            loop.sim_at(when - START, self._deliver, tr, ch)

    def _deliver(self, tr, ch: bytes) -> None:
        self.inflight -= 1
        tr.feed(ch)

    def send(self, *msgs, delay: float | None = None, cuts: list[int] | None = None) -> None:
        self.send_raw(b"".join(self.encode(m) for m in msgs), delay, cuts)

    def feed_now(self, data: bytes) -> None:
        self.transport.feed(data)


class SimDevice:
    """Scriptable ESPHome device.  Default behaviour: a healthy device."""

    def __init__(self, env: "Env", *, noise_key: bytes | None = None, name: str = "dev") -> None:
        self.env = env
        self.noise_key = noise_key
        self.noise_name: bytes | None = name.encode()
        self.name = name
        self.api_version = (1, 10)
        self.invalid_password = False
        self.latency = D
        self.sessions: list[DeviceSession] = []
        # ids answered automatically: hello, connect, disconnect, ping, device info, list entities
        self.auto: set[int] = {1, 3, 5, 7, 9, 11}
        self.handlers: dict[int, Callable[[DeviceSession, bytes], Any]] = {}
        self.on_frame: Callable[[DeviceSession, int, bytes], bool] | None = None
        self.hello_trailer: bytes | None = None  # raw plaintext frames appended to the hello/connect answer chunk
        self.hello_trailer_msgs: list = []  # messages appended (encoded in order) to the same chunk
        self.hello_cuts: list[int] | None = None
        self.noise_handshake_hook = None
        self.on_noise_client = None
        self.on_plain_client = None
        self.close_after_disconnect_response = True

    def new_session(self) -> DeviceSession:
        s = DeviceSession(self, len(self.sessions))
        self.sessions.append(s)
        return s

    @property
    def session(self) -> DeviceSession | None:
        return self.sessions[-1] if self.sessions else None

    def handle(self, s: DeviceSession, t: int, p: bytes) -> None:
        from aioesphomeapi import api_pb2 as pb

        if self.on_frame is not None and self.on_frame(s, t, p):
            return
        h = self.handlers.get(t)
        if h is not None:
            h(s, p)
            return
        if t not in self.auto:
            return
        if t == 1:
            # hello (+ connect, if it is in the same client write) answered as one chunk when both are auto
            s._pending_hello = [
                pb.HelloResponse(
                    api_version_major=self.api_version[0],
                    api_version_minor=self.api_version[1],
                    name=self.name,
                    server_info="sim",
                )
            ]
        elif t == 3:
            resp = pb.ConnectResponse(invalid_password=self.invalid_password)
            if getattr(s, "_pending_hello", None) is not None:
                s._pending_hello.append(resp)
            else:
                s.send(resp)
        elif t == 5:
            s.send(pb.DisconnectResponse())
            if self.close_after_disconnect_response:
                tr = s.transport
                self.env.loop.sim_after(max(self.latency, s._next_feed - self.env.loop.time()) + D, tr.feed_eof)
        elif t == 7:
            s.send(pb.PingResponse())
        elif t == 9:
            s.send(pb.DeviceInfoResponse(name=self.name, mac_address="AA:BB:CC:DD:EE:FF"))
        elif t == 11:
            s.send(pb.ListEntitiesDoneResponse())

    def _flush_hello(self, s: DeviceSession) -> None:
        msgs = getattr(s, "_pending_hello", None)
        s._pending_hello = None
        if not msgs:
            return
        data = b"".join(s.encode(m) for m in msgs)
        for m in self.hello_trailer_msgs:
            data += s.encode(m)
        if self.hello_trailer:
            data += self.hello_trailer
        s.send_raw(data, cuts=self.hello_cuts)


# ---------------------------------------------------------------------------
class Env:
    """One simulated world."""

    def __init__(self, *, noise_key: bytes | None = None, name: str = "dev", max_iterations: int = 200_000) -> None:
        global CURRENT
        install_seams()
        noise_ref.reset_ephemerals(0)
        self.loop = SimLoop(max_iterations=max_iterations)
        self.loop.env = self  # type: ignore[attr-defined]
        asyncio.set_event_loop(self.loop)
        CURRENT = self
        self.trace: list[dict] = []
        self.sockets: list[FakeSocket] = []
        self.transports: list[SimTransport] = []
        self.conns: list = []
        self.dev = SimDevice(self, noise_key=noise_key, name=name)
        # TCP script: list of outcomes consumed one per start_connection call; last one repeats
        #   ("ok", delay) | ("refuse", delay) | ("hang",)
        self.tcp_script: list[tuple] = [("ok", 4 * D)]
        self.tcp_calls: list[dict] = []
        # DNS script: host -> ("ok", [ip,...], delay) | ("empty", delay) | ("error", delay) | ("hang",)
        self.dns: dict[str, tuple] = {}
        self.dns_calls: list[tuple] = []
        self.loop.create_connection = self._create_connection  # type: ignore[method-assign]
        self.loop.getaddrinfo = self._getaddrinfo  # type: ignore[method-assign]
        self.tasks: list[tuple[str, asyncio.Task]] = []
        self.results: dict[str, tuple] = {}
        self.cancelled_by_harness: set[str] = set()
        self.create_connection_yields = 0
        self.log_subscriptions = False
        self.sock_fault: str | None = None

    # ------------------------------------------------------------ trace
    def log(self, kind: str, **kw) -> int:
        seq = len(self.trace)
        kw["seq"] = seq
        kw["t"] = self.loop.now()
        kw["it"] = self.loop.iterations
        kw["kind"] = kind
        self.trace.append(kw)
        return seq

    def new_conn_id(self, conn) -> int:
        self.conns.append(conn)
        cid = len(self.conns) - 1
        self.log("conn_new", conn=cid)
        return cid

    def events(self, *kinds: str) -> list[dict]:
        ks = set(kinds)
        return [e for e in self.trace if e["kind"] in ks]

    # ------------------------------------------------------------ seams
    async def _tcp_connect(self, addr_infos):
        i = len(self.tcp_calls)
        script = self.tcp_script[min(i, len(self.tcp_script) - 1)]
        rec = {"i": i, "addr_infos": list(addr_infos), "start": self.loop.now(), "end": None, "outcome": None}
        self.tcp_calls.append(rec)
        self.log("tcp_start", i=i, addrs=[a[4][0] for a in addr_infos])
        try:
            if script[0] == "hang":
                await self.loop.create_future()
            await asyncio.sleep(script[1])
            if script[0] == "refuse":
                rec["outcome"] = "refuse"
                raise ConnectionRefusedError(111, "Connect call failed")
            if script[0] == "oserror":
                rec["outcome"] = "oserror"
                raise OSError(113, "No route to host")
            if script[0] == "rt":
                # (uvloop's sock_connect on a handle it has closed)
                rec["outcome"] = "rt"
                raise RuntimeError("unable to perform operation on <TCPTransport closed=True>; the handler is closed")
            peer = addr_infos[min(getattr(self, "tcp_land", 0), len(addr_infos) - 1)][4]  # which candidate answered
            sock = FakeSocket(self, (peer[0], peer[1]))
            rec["outcome"] = "ok"
            rec["sock"] = sock.idx
            return sock
        except asyncio.CancelledError:
            rec["outcome"] = rec["outcome"] or "cancelled"
            raise
        finally:
            rec["end"] = self.loop.now()
            self.log("tcp_end", i=i, outcome=rec["outcome"])

    async def _create_connection(self, protocol_factory, host=None, port=None, *, sock=None, **kw):
        """loop.create_connection(factory, sock=sock) as the selector loop does it:
        connection_made, then the waiter, each via call_soon; the caller resumes one turn later."""
        assert sock is not None, "only sock= connections are simulated"
        loop = self.loop
        proto = protocol_factory()
        session = self.dev.new_session()
        tr = SimTransport(self, proto, sock, session)
        session.transport = tr
        waiter = loop.create_future()
        loop.call_soon(proto.connection_made, tr)
        loop.call_soon(tr._start_reading)
        loop.call_soon(_set_result_unless_cancelled, waiter)
        try:
            await waiter
        except BaseException:
            tr.close()
            raise
        return tr, proto

    async def _getaddrinfo(self, host, port, *, family=0, type=0, proto=0, flags=0):
        self.dns_calls.append((host, port))
        self.log("dns", host=host)
        script = self.dns.get(host, ("error", D))
        if script[0] == "unicode_error":
            # what loop.getaddrinfo does with a malformed (but typable) host name: the idna codec refuses it before any lookup
            raise UnicodeError(f"encoding with 'idna' codec failed (UnicodeError: label empty or too long): {host!r}")
        if script[0] == "hang":
            await self.loop.create_future()
        if script[0] == "ok":
            await asyncio.sleep(script[2] if len(script) > 2 else D)
            out = []
            for ip in script[1]:
                if ":" in ip:
                    # (as the platform does: the zone of a scoped address comes back as the numeric scope id in
                    # sockaddr[3], the address string itself carries no zone)
                    addr, _, zone = ip.partition("%")
                    out.append((socket.AF_INET6, socket.SOCK_STREAM, socket.IPPROTO_TCP, "", (addr, port, 0, int(zone) if zone else 0)))
                else:
                    out.append((socket.AF_INET, socket.SOCK_STREAM, socket.IPPROTO_TCP, "", (ip, port)))
            return out
        await asyncio.sleep(script[1] if len(script) > 1 else D)
        if script[0] == "empty":
            return []
        raise socket.gaierror(-2, "Name or service not known")

    # ------------------------------------------------------------ operations
    def spawn(self, name: str, coro, eager: bool = True) -> asyncio.Task:
        """Run an awaited client operation as a task; outcome recorded with virtual times."""
        env = self

        async def wrapper():
            t0 = env.loop.now()
            env.log("op_start", op=name)
            try:
                r = await coro
            except BaseException as e:  # noqa: BLE001
                env.results[name] = ("exc", e, t0, env.loop.now())
                env.log("op_end", op=name, outcome=type(e).__name__)
                if isinstance(e, (KeyboardInterrupt, SystemExit)):
                    raise
                return
            env.results[name] = ("ok", r, t0, env.loop.now())
            env.log("op_end", op=name, outcome="ok")

        if eager and self.loop.is_running():
            task = asyncio.Task(wrapper(), loop=self.loop, eager_start=True)
        else:
            task = self.loop.create_task(wrapper())
        self.tasks.append((name, task))
        return task

    def task(self, name: str) -> asyncio.Task | None:
        for n, t in self.tasks:
            if n == name:
                return t
        return None

    def cancel(self, name: str) -> None:
        t = self.task(name)
        if t is not None and not t.done():
            self.cancelled_by_harness.add(name)
            self.log("harness_cancel", op=name)
            t.cancel()

    def run(self) -> None:
        self.loop.run_until_quiescent()

    def close(self) -> None:
        global CURRENT
        self.loop.dispose()
        if CURRENT is self:
            CURRENT = None

    # ------------------------------------------------------------ audit
    def audit(self) -> list[str]:
        """Leftovers at quiescence."""
        out = []
        for h in self.loop.armed_timers():
            out.append(f"timer-armed:{getattr(h._callback, '__qualname__', repr(h._callback))}")
        for t in self.loop.pending_tasks():
            out.append(f"task-pending:{t.get_coro().__qualname__}")
        for s in self.sockets:
            if not s.closed:
                out.append(f"socket-open:{s.idx}")
        for tr in self.transports:
            if not tr.closing:
                out.append(f"transport-open:{tr.idx}")
        return out


def _set_result_unless_cancelled(fut) -> None:
    if not fut.cancelled():
        fut.set_result(None)


def make_client(env: Env, *, address: str = "10.0.0.1", password=None, noise_psk: str | None = None,
                expected_name: str | None = None, keepalive: float = 32.0, addresses=None, zeroconf_instance=None):
    from aioesphomeapi import APIClient

    return APIClient(
        address,
        6053,
        password,
        keepalive=keepalive,
        noise_psk=noise_psk,
        expected_name=expected_name,
        addresses=addresses,
        zeroconf_instance=zeroconf_instance,
    )
