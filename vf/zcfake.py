"""Fake zeroconf layer (third-party boundary) for C18 / C20.

Replaces, inside aioesphomeapi only:
  aioesphomeapi.zeroconf.AsyncZeroconf / Zeroconf      -> FakeAsyncZeroconf / FakeZeroconf
  aioesphomeapi.host_resolver.AsyncServiceInfo          -> FakeServiceInfo
Every instance is registered in the current `ZcWorld`, which scripts mDNS answers per name and
records creations, closes, listener registrations and lookups.
"""
from __future__ import annotations

import asyncio
from ipaddress import ip_address

WORLD: "ZcWorld | None" = None
_INSTALLED = False


class ZcWorld:
    def __init__(self, env=None) -> None:
        global WORLD
        install()
        WORLD = self
        self.env = env
        self.zcs: list[FakeZeroconf] = []
        self.mdns: dict[str, dict] = {}   # name -> {"outcome": "ok"|"none"|"raise"|"hang", "v4": [...], "v6": [...], "delay": seconds}
        self.lookups: list[tuple] = []    # (service_name, server, zc index)
        self.fail_create = False

    def log(self, kind, **kw):
        if self.env is not None:
            self.env.log(kind, **kw)

    def supplied_async(self) -> "FakeAsyncZeroconf":
        z = FakeZeroconf(supplied=True)
        return FakeAsyncZeroconf(zc=z)

    def supplied_sync(self) -> "FakeZeroconf":
        return FakeZeroconf(supplied=True)

    def open_created(self) -> list["FakeZeroconf"]:
        return [z for z in self.zcs if not z.supplied and z.closed == 0]

    def close(self) -> None:
        global WORLD
        if WORLD is self:
            WORLD = None


class FakeZeroconf:
    def __init__(self, supplied: bool = False) -> None:
        w = WORLD
        self.supplied = supplied
        self.closed = 0
        self.listeners: list = []
        self.listener_log: list = []
        self.idx = len(w.zcs) if w else -1
        if w:
            w.zcs.append(self)
            w.log("zc_new", zc=self.idx, supplied=supplied)

    def async_add_listener(self, listener, question) -> None:
        self.listeners.append(listener)
        self.listener_log.append(("add", question))
        if WORLD:
            WORLD.log("zc_listen", zc=self.idx)
        # python-zeroconf: a listener registered WITH questions is handed, synchronously from inside this call, the
        # matching records the cache already holds (registered with None it hears only what arrives from now on)
        cached = list(getattr(WORLD, "cache", None) or []) if WORLD else []
        if question is not None and cached:
            qs = question if isinstance(question, (list, tuple)) else [question]
            hits = [u for u in cached if any(getattr(q, "name", None) == u.new.name and getattr(q, "type", None) == u.new.type for q in qs)]
            if hits:
                WORLD.log("zc_cache_replay", zc=self.idx, n=len(hits))
                listener.async_update_records(self, 0.0, hits)
                done = getattr(listener, "async_update_records_complete", None)
                if done:
                    done()

    def async_remove_listener(self, listener) -> None:
        if listener in self.listeners:
            self.listeners.remove(listener)
        self.listener_log.append(("remove",))
        if WORLD:
            WORLD.log("zc_unlisten", zc=self.idx)

    def _close(self) -> None:
        self.closed += 1
        if WORLD:
            WORLD.log("zc_close", zc=self.idx, supplied=self.supplied)

    def close(self) -> None:
        self._close()


class FakeAsyncZeroconf:
    def __init__(self, zc: FakeZeroconf | None = None, **kw) -> None:
        if zc is None:
            if WORLD is not None and WORLD.fail_create:
                if WORLD.fail_create == "rt":  # python-zeroconf itself: no usable interface
                    raise RuntimeError("No interfaces to listen on, check that any interfaces have IP version 4")
                raise OSError(19, "No such device")
            zc = FakeZeroconf(supplied=False)
        self.zeroconf = zc

    async def async_close(self) -> None:
        await asyncio.sleep(0)
        self.zeroconf._close()


class FakeServiceInfo:
    def __init__(self, type_: str, name: str, server: str | None = None, **kw) -> None:
        self.type = type_
        self.name = name
        self.server = server
        self._v4: list = []
        self._v6: list = []

    async def async_request(self, zc, timeout: float, *a, **k) -> bool:
        w = WORLD
        host = self.name.split(".")[0]
        w.lookups.append((self.name, self.server, getattr(zc, "idx", None)))
        w.log("mdns_lookup", name=self.name, server=self.server, zc=getattr(zc, "idx", None))
        sc = w.mdns.get(host, {"outcome": "none"})
        if getattr(zc, "closed", 0):
            raise RuntimeError("lookup on a closed zeroconf instance")
        if sc.get("outcome") == "hang":
            await asyncio.sleep(timeout / 1000)
            return False
        await asyncio.sleep(sc.get("delay", 1 / 64))
        if sc.get("outcome") == "raise":
            raise OSError(101, "Network is unreachable")
        if sc.get("outcome") == "none":
            return False
        self._v4 = [ip_address(x) for x in sc.get("v4", [])]
        self._v6 = [ip_address(x) for x in sc.get("v6", [])]
        # python-zeroconf returns whether the service info is COMPLETE (TXT seen, ...), not whether addresses were
        # learnt: the resolver asks only for the A/AAAA records of `server`, so the result is normally False even
        # though the addresses are there ("complete": true scripts the other case)
        return bool(self._v4 or self._v6) and bool(sc.get("complete", False))

    def ip_addresses_by_version(self, version):
        n = getattr(version, "name", str(version))
        if n == "V6Only":
            return list(self._v6)
        if n == "V4Only":
            return list(self._v4)
        return list(self._v4) + list(self._v6)


def install() -> None:
    global _INSTALLED
    if _INSTALLED:
        return
    import aioesphomeapi.host_resolver as hr
    import aioesphomeapi.zeroconf as zmod

    zmod.AsyncZeroconf = FakeAsyncZeroconf
    zmod.Zeroconf = FakeZeroconf
    hr.AsyncServiceInfo = FakeServiceInfo
    _INSTALLED = True
