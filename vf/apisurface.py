"""The public APIClient surface: reflection, argument recipes, and a device-side responder
that answers every awaitable request so calls finish (C13 sweep, C19 probes).

A recipe is `fn(cli, variant:int) -> None | coroutine`.  Everything user-visible that a
recipe registers (callbacks) is a no-op collector; the checks only look at the wire and
the handler registrations.
"""
from __future__ import annotations

import inspect

LIFECYCLE = {"connect", "start_connection", "finish_connection", "disconnect"}
LOCAL_ONLY = {"set_debug", "set_cached_name_if_unset"}  # never touch the connection's wire

ADDR = 0xAABBCCDDEEFF
HANDLE = 17


def public_methods() -> list[str]:
    from aioesphomeapi import APIClient

    return sorted(n for n, f in inspect.getmembers(APIClient, predicate=inspect.isfunction) if not n.startswith("_"))


def _ret_dict(*a, **k):
    return {"ok": "yes", "n": "1"}


def _ret_true(*a, **k):
    return True


def _cb(v):
    """A plain application callback; what it returns (nothing, a dict, True) is its own business."""
    return (_noop, _ret_dict, _ret_true, _noop)[v % 4]


def _noop(*a, **k):
    return None


async def _anoop(*a, **k):
    return None


async def _start_port(*a, **k):
    return 4242


async def _start_slow(*a, **k):
    import asyncio

    await asyncio.sleep(1.0)
    return 4243


# the data keys Home Assistant's pipeline puts into voice-assistant events
VA_DATA = {"continue_conversation": "1", "conversation_id": "cid-1", "text": "turn on the light", "url": "http://ha/tts.mp3", "tts_output": "1",
           "code": "no-intent", "message": "sorry", "timer_finished": "1", "tts_start_streaming": "1"}


def recipes() -> dict:
    from aioesphomeapi import model as M

    def svc(v):
        T = M.UserServiceArgType
        args = [
            M.UserServiceArg(name="b", type=T.BOOL), M.UserServiceArg(name="i", type=T.INT),
            M.UserServiceArg(name="f", type=T.FLOAT), M.UserServiceArg(name="s", type=T.STRING),
            M.UserServiceArg(name="ba", type=T.BOOL_ARRAY), M.UserServiceArg(name="ia", type=T.INT_ARRAY),
            M.UserServiceArg(name="fa", type=T.FLOAT_ARRAY), M.UserServiceArg(name="sa", type=T.STRING_ARRAY),
        ]
        return M.UserService(name="svc", key=7, args=args[: (v % 9)] if v % 9 else args), {
            "b": True, "i": 5, "f": 1.5, "s": "x", "ba": [True, False], "ia": [1, 2], "fa": [0.5], "sa": ["a", "b"]}

    R = {
        "alarm_control_panel_command": lambda c, v: c.alarm_control_panel_command(1, M.AlarmControlPanelCommand.ARM_AWAY, *( ["12"] if v % 2 else [])),
        "bluetooth_device_clear_cache": lambda c, v: c.bluetooth_device_clear_cache(ADDR, timeout=2.0),
        "bluetooth_device_connect": lambda c, v: c.bluetooth_device_connect(
            ADDR, _noop, timeout=2.0, disconnect_timeout=2.0, feature_flags=(0, 1 << 3, 0)[v % 3], has_cache=(v % 3 == 2),
            address_type=(None, 0, 1)[v % 3]),
        "bluetooth_device_disconnect": lambda c, v: c.bluetooth_device_disconnect(ADDR, timeout=2.0),
        "bluetooth_device_pair": lambda c, v: c.bluetooth_device_pair(ADDR, timeout=2.0),
        "bluetooth_device_unpair": lambda c, v: c.bluetooth_device_unpair(ADDR, timeout=2.0),
        "bluetooth_gatt_get_services": lambda c, v: c.bluetooth_gatt_get_services(ADDR),
        "bluetooth_gatt_read": lambda c, v: c.bluetooth_gatt_read(ADDR, HANDLE, timeout=2.0),
        "bluetooth_gatt_read_descriptor": lambda c, v: c.bluetooth_gatt_read_descriptor(ADDR, HANDLE, timeout=2.0),
        "bluetooth_gatt_start_notify": lambda c, v: c.bluetooth_gatt_start_notify(ADDR, HANDLE, _noop, timeout=2.0),
        "bluetooth_gatt_write": lambda c, v: c.bluetooth_gatt_write(ADDR, HANDLE, b"\x01\x02", bool(v % 2), timeout=2.0),
        "bluetooth_gatt_write_descriptor": lambda c, v: c.bluetooth_gatt_write_descriptor(ADDR, HANDLE, b"\x01", timeout=2.0, wait_for_response=not (v % 2)),
        "button_command": lambda c, v: c.button_command(1),
        "climate_command": lambda c, v: c.climate_command(1, mode=M.ClimateMode.HEAT, target_temperature=21.5, preset=M.ClimatePreset.AWAY if v % 2 else None),
        "cover_command": lambda c, v: c.cover_command(1, position=(1.0, 0.0, 0.5)[v % 3], tilt=0.25 if v % 2 else None, stop=(v % 4 == 3)),
        "date_command": lambda c, v: c.date_command(1, 2024, 2, 29),
        "datetime_command": lambda c, v: c.datetime_command(1, 1700000000),
        "device_info": lambda c, v: c.device_info(),
        "execute_service": lambda c, v: c.execute_service(*svc(v)),
        "fan_command": lambda c, v: c.fan_command(1, state=True, speed_level=3, direction=M.FanDirection.REVERSE),
        "get_voice_assistant_configuration": lambda c, v: c.get_voice_assistant_configuration(timeout=2.0),
        "light_command": lambda c, v: c.light_command(1, state=True, brightness=0.5, rgb=(1.0, 0.5, 0.0), transition_length=1.5, effect="x"),
        "list_entities_services": lambda c, v: c.list_entities_services(),
        "lock_command": lambda c, v: c.lock_command(1, M.LockCommand.LOCK, *( ["1234"] if v % 2 else [])),
        "media_player_command": lambda c, v: c.media_player_command(1, command=M.MediaPlayerCommand.PLAY, volume=0.5, media_url="http://x/y" if v % 2 else None),
        "number_command": lambda c, v: c.number_command(1, 2.5),
        "request_image_stream": lambda c, v: c.request_image_stream(),
        "request_single_image": lambda c, v: c.request_single_image(),
        "select_command": lambda c, v: c.select_command(1, "opt"),
        "send_home_assistant_state": lambda c, v: c.send_home_assistant_state("sensor.x", "attr" if v % 2 else None, "on"),
        "send_voice_assistant_announcement_await_response": lambda c, v: c.send_voice_assistant_announcement_await_response("media", 2.0, "hi"),
        "send_voice_assistant_audio": lambda c, v: c.send_voice_assistant_audio(b"\x00\x01"),
        "send_voice_assistant_event": lambda c, v: [c.send_voice_assistant_event(et, ({"a": "b"}, None, VA_DATA, {"continue_conversation": "0"})[(v + i) % 4])
                                                    for i, et in enumerate(M.VoiceAssistantEventType)][-1],
        "send_voice_assistant_timer_event": lambda c, v: c.send_voice_assistant_timer_event(M.VoiceAssistantTimerEventType.VOICE_ASSISTANT_TIMER_STARTED, "t1", "n" if v % 2 else None, 10, 5, True),
        "set_voice_assistant_configuration": lambda c, v: c.set_voice_assistant_configuration(["okay nabu"]),
        "siren_command": lambda c, v: c.siren_command(1, state=True, tone="t", volume=0.5, duration=3),
        "subscribe_bluetooth_connections_free": lambda c, v: c.subscribe_bluetooth_connections_free(_cb(v)),
        "subscribe_bluetooth_le_advertisements": lambda c, v: c.subscribe_bluetooth_le_advertisements(_cb(v)),
        "subscribe_bluetooth_le_raw_advertisements": lambda c, v: c.subscribe_bluetooth_le_raw_advertisements(_cb(v)),
        "subscribe_home_assistant_states": lambda c, v: c.subscribe_home_assistant_states(_cb(v), _cb(v + 1) if v % 2 else None),
        "subscribe_logs": lambda c, v: c.subscribe_logs(_cb(v), log_level=M.LogLevel.LOG_LEVEL_DEBUG if v % 2 else None, dump_config=True if v % 3 == 0 else None),
        "subscribe_service_calls": lambda c, v: c.subscribe_service_calls(_cb(v)),
        "subscribe_states": lambda c, v: c.subscribe_states(_cb(v)),
        "subscribe_voice_assistant": lambda c, v: c.subscribe_voice_assistant(
            handle_start=_start_slow if v % 4 >= 2 else _start_port, handle_stop=_anoop, handle_audio=_anoop if v % 2 else None,
            handle_announcement_finished=_anoop if v % 3 == 0 else None),
        "switch_command": lambda c, v: c.switch_command(1, bool(v % 2)),
        "text_command": lambda c, v: c.text_command(1, "hello"),
        "time_command": lambda c, v: c.time_command(1, 23, 59, 58),
        "update_command": lambda c, v: c.update_command(1, M.UpdateCommand.CHECK),
        "valve_command": lambda c, v: c.valve_command(1, position=0.5 if v % 2 else None, stop=(v % 3 == 0)),
        "set_debug": lambda c, v: c.set_debug(bool(v % 2)),
        "set_cached_name_if_unset": lambda c, v: c.set_cached_name_if_unset("nm"),
    }
    return R


def uncovered() -> list[str]:
    r = recipes()
    return [m for m in public_methods() if m not in r and m not in LIFECYCLE]


def install_responder(dev) -> None:
    """Make the simulated device answer every awaitable request of the public API."""
    from aioesphomeapi import api_pb2 as pb

    from . import wire

    idof = wire.ids()[1]

    def h(cls):
        def deco(fn):
            def handler(s, payload):
                m = cls()
                m.MergeFromString(payload)
                out = fn(m)
                if out:
                    s.send(*out)

            dev.handlers[idof[cls]] = handler
            return fn

        return deco

    @h(pb.BluetoothDeviceRequest)
    def _(m):
        rt = m.request_type
        # 0 CONNECT, 1 DISCONNECT, 2 PAIR, 3 UNPAIR, 4 V3_WITH_CACHE, 5 V3_WITHOUT_CACHE, 6 CLEAR_CACHE
        if rt in (0, 4, 5):
            return [pb.BluetoothDeviceConnectionResponse(address=m.address, connected=True, mtu=23)]
        if rt == 1:
            return [pb.BluetoothDeviceConnectionResponse(address=m.address, connected=False)]
        if rt == 2:
            return [pb.BluetoothDevicePairingResponse(address=m.address, paired=True)]
        if rt == 3:
            return [pb.BluetoothDeviceUnpairingResponse(address=m.address, success=True)]
        if rt == 6:
            return [pb.BluetoothDeviceClearCacheResponse(address=m.address, success=True)]
        return []

    @h(pb.BluetoothGATTGetServicesRequest)
    def _(m):
        return [pb.BluetoothGATTGetServicesDoneResponse(address=m.address)]

    @h(pb.BluetoothGATTReadRequest)
    def _(m):
        return [pb.BluetoothGATTReadResponse(address=m.address, handle=m.handle, data=b"v")]

    @h(pb.BluetoothGATTReadDescriptorRequest)
    def _(m):
        return [pb.BluetoothGATTReadResponse(address=m.address, handle=m.handle, data=b"d")]

    @h(pb.BluetoothGATTWriteRequest)
    def _(m):
        return [pb.BluetoothGATTWriteResponse(address=m.address, handle=m.handle)] if m.response else []

    @h(pb.BluetoothGATTWriteDescriptorRequest)
    def _(m):
        return [pb.BluetoothGATTWriteResponse(address=m.address, handle=m.handle)]

    @h(pb.BluetoothGATTNotifyRequest)
    def _(m):
        return [pb.BluetoothGATTNotifyResponse(address=m.address, handle=m.handle)] if m.enable else []

    @h(pb.VoiceAssistantAnnounceRequest)
    def _(m):
        return [pb.VoiceAssistantAnnounceFinished(success=True)]

    @h(pb.VoiceAssistantConfigurationRequest)
    def _(m):
        return [pb.VoiceAssistantConfigurationResponse(max_active_wake_words=1)]
