"""Coverage-guided tier (atheris / libFuzzer) – thorough tier only.

    python -m vf.fuzz <Cnn> --runs N --seed S --out DIR [--corpus DIR]

The fuzz target is the property module's own Hypothesis strategy driven by the fuzzer's bytes
(`given(...).hypothesis.fuzz_one_input`), so inputs stay structured (frames, cuts, deviations)
while libFuzzer's coverage feedback over the instrumented `aioesphomeapi` package decides which
byte strings to keep and mutate.  The oracle is the module's `run_case`, evaluated inside the
target; a violation not listed as known writes a replay file, prints the VIOLATION line and exits 1.
Statistics go to DIR/fuzz-stats.json (atexit handlers do not run under libFuzzer).
"""
from __future__ import annotations

import argparse
import importlib
import json
import os
import sys
import time


def main() -> int:
    ap = argparse.ArgumentParser()
    ap.add_argument("prop")
    ap.add_argument("--runs", type=int, default=20000)
    ap.add_argument("--seed", type=int, default=1)
    ap.add_argument("--out", required=True)
    ap.add_argument("--corpus", default=None)
    ap.add_argument("--tier", default="thorough")
    a = ap.parse_args()
    root = os.path.dirname(os.path.dirname(os.path.abspath(__file__)))
    sys.path.insert(0, root)
    from vf import runner

    sys.path.insert(0, runner.REPO)
    try:
        import atheris
    except ImportError:
        print("FUZZ-UNAVAILABLE atheris not importable")
        return 3
    with atheris.instrument_imports(include=["aioesphomeapi"], enable_loader_override=False):
        import aioesphomeapi  # noqa: F401
        import aioesphomeapi._frame_helper.base  # noqa: F401
        import aioesphomeapi._frame_helper.noise  # noqa: F401
        import aioesphomeapi._frame_helper.plain_text  # noqa: F401
        import aioesphomeapi.client  # noqa: F401
        import aioesphomeapi.client_callbacks  # noqa: F401
        import aioesphomeapi.connection  # noqa: F401
        import aioesphomeapi.model  # noqa: F401
        import aioesphomeapi.reconnect_logic  # noqa: F401
    runner.assert_code_under_test()
    mod = importlib.import_module(f"vf.props.{a.prop.lower()}")
    if hasattr(mod, "shard_init"):
        mod.shard_init(a.tier)
    known = runner.known_index(mod.ID)
    stats = runner.Stats()
    os.makedirs(a.out, exist_ok=True)
    stats_path = os.path.join(a.out, "fuzz-stats.json")
    t0 = time.time()
    count = [0]

    def dump(final: bool = False) -> None:
        with open(stats_path + ".tmp", "w") as f:
            json.dump({
                "runs": count[0], "evaluations": stats.evaluations, "distinct_cases": len(stats.all_hashes),
                "distinct_nontrivial": len(stats.nontrivial_hashes), "classes": stats.classes, "known_hits": stats.known_hits,
                "wall_s": round(time.time() - t0, 2), "final": final,
                "sample": (stats.nt_samples or stats.samples or [None])[0],
            }, f, default=runner._json_default)
        os.replace(stats_path + ".tmp", stats_path)

    import hypothesis
    from hypothesis import HealthCheck, given, settings

    @settings(database=None, deadline=None, suppress_health_check=list(HealthCheck), verbosity=hypothesis.Verbosity.quiet)
    @given(runner.with_debug(mod.strategy(a.tier)))
    def prop(case):
        try:
            v = runner.evaluate(mod, case, known, stats, "fuzz")
        except runner.HarnessError as e:
            print(f"HARNESS-ERROR property={mod.ID}: {e}")
            dump(True)
            os._exit(2)
        if v is not None:
            path = runner.write_replay(mod.ID, json.loads(runner.canon(case)), v)
            dump(True)
            print(f"violation detail: {v.signature} :: {v.detail[:600]}")
            print(f"VIOLATION property={mod.ID} replay={path}")
            sys.stdout.flush()
            os._exit(1)

    fuzz_one = prop.hypothesis.fuzz_one_input

    def target(data: bytes) -> None:
        count[0] += 1
        fuzz_one(data)
        if count[0] % 2000 == 0 or count[0] >= a.runs:
            dump(count[0] >= a.runs)

    corpus = a.corpus or os.path.join(a.out, "corpus")
    os.makedirs(corpus, exist_ok=True)
    argv = [sys.argv[0], f"-runs={a.runs}", f"-seed={a.seed or 1}", "-max_len=2048", "-print_final_stats=0", "-verbosity=0", corpus]
    atheris.Setup(argv, target)
    atheris.Fuzz()
    dump(True)
    return 0


if __name__ == "__main__":
    sys.exit(main())
