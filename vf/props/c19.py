"""C19 – the client never wedges and refuses work unless a session is alive.

Layer S.  One APIClient object goes through a generated history of start / finish / connect /
disconnect(force) calls – optionally with a disconnect, force-disconnect or task cancellation
landing *during* the call – device-side endings (EOF, reset, DisconnectRequest, garbage, ping
timeout) and scripted failures (TCP refused/hang, bad hello, invalid password, silence).  After
every step the loop settles and a black-box model {IDLE, STARTED, CONNECTED}, updated only from
call outcomes and injected events, is compared with what the client accepts and refuses.
"""
from __future__ import annotations

import asyncio
import base64

from hypothesis import strategies as st

from vf import apisurface
from vf.life import KEY
from vf.runner import CaseResult, HarnessError, Violation
from vf.simloop import START, IterationCap
from vf.simnet import D, Env, make_client

ID = "C19"
LEVEL = "exploration"
RULE = (
    "histories of 2-14 steps on ONE client: start_connection (TCP ok|refused|hang), finish_connection / connect (device: "
    "ok | incompatible version | invalid password | silent | EOF | garbage | DisconnectRequest with the hello answer), "
    "each optionally with disconnect() | disconnect(force) | task cancellation | three API calls (which must be refused without writing) injected k/64 s into the call; "
    "disconnect(force T/F) at every stage; device endings EOF | reset | DisconnectRequest | garbage | ping timeout in "
    "STARTED and CONNECTED, also with a request in flight whose answer shares the chunk with the ending; after every step a probe: model IDLE -> start_connection must be accepted (a TCP attempt "
    "starts); model != IDLE -> start_connection must raise APIConnectionError and open no socket; model != CONNECTED -> "
    "3 public API calls (rotating over all 51 recipes) must each raise APIConnectionError and write nothing; model "
    "CONNECTED -> device_info() must work. non-trivial = >=2 sessions were attempted and a close happened at a stage "
    "other than CONNECTED."
)
ASSUMPTIONS = [
    "with reconnect_in_on_stop the stop callback itself calls start_connection before its first await (what a reconnect manager does after an unexpected disconnect): the session is over by definition, so the attempt must be accepted",
    "model state changes only on call outcomes and injected events: start ok -> STARTED, finish ok -> CONNECTED, any failed phase / returned disconnect() / delivered device ending -> IDLE; results of concurrent calls are applied in completion order",
    "when the device closes the socket between the two phases the attempt is still 'in progress' from the caller's side: start_connection is then not asserted either way, finish_connection must fail with an APIConnectionError and disconnect() must free the client",
    "probes run only at settled points (3/64 s after the step's calls completed)",
]
BUDGET = {"quick": {"examples": 500, "shards": 8}, "thorough": {"examples": 10000, "shards": 16}}
FLOORS = {"multi_session": 0.4, "close_before_connected": 0.3}


def V(sig, detail=""):
    return Violation(ID, sig, detail)


def run_case(case: dict) -> CaseResult:
    from aioesphomeapi import api_pb2 as pb
    from aioesphomeapi.core import APIConnectionError

    res = CaseResult()
    noise = bool(case.get("noise"))
    env = Env(noise_key=KEY if noise else None)
    dev = env.dev
    K = float(case.get("keepalive", 2.0))
    cli = make_client(env, noise_psk=base64.b64encode(KEY).decode() if noise else None, keepalive=K, password=case.get("password"))
    R = apisurface.recipes()
    names = [n for n in sorted(R) if n not in apisurface.LOCAL_ONLY]
    model = {"s": "IDLE", "dead_started": False}
    stops: list = []
    closing_down = [False]
    classes: set[str] = set()
    stats = {"sessions": 0, "probes": 0, "skipped": 0, "rot": int(case.get("rot", 0))}
    viol = res.violations

    async def on_stop(expected):
        stops.append(expected)
        env.log("on_stop", arg=expected)
        if case.get("reconnect_in_on_stop") and not closing_down[0]:
            # the session has ended: a new attempt made right here (before the handler's first await) must be accepted
            classes.add("reconnect_from_on_stop")
            if case["reconnect_in_on_stop"] == "after_await":
                classes.add("reconnect_from_on_stop_after_await")
                await asyncio.sleep(1 / 64)  # (a back-off: the handler is now a task the client itself is tracking)
            n_tcp = len(env.tcp_calls)
            env.tcp_script = [("refuse", D)]
            try:
                try:
                    await asyncio.wait_for(cli.start_connection(on_stop), 100.0)  # (longer than every connect-phase limit)
                except asyncio.TimeoutError:
                    viol.append(V("c19:wedged:start-hung-in-on_stop", "start_connection() called from the stop callback neither started a TCP attempt nor failed within 100 s"))
                    return
                viol.append(V("c19:harness:start-succeeded-on-refused-tcp", "in on_stop"))
            except APIConnectionError as e:
                if len(env.tcp_calls) == n_tcp:
                    viol.append(V("c19:wedged:start-refused-in-on_stop", f"the stop callback ran (session over) but start_connection raised {e!r} without attempting to connect"))
            except BaseException as e:  # noqa: BLE001
                viol.append(V(f"c19:start-in-on_stop:raised:{type(e).__name__}", repr(e)[:200]))

    connecting = [False]

    def set_device(beh: str | None):
        dev.auto = {1, 3, 5, 7, 9, 11}
        dev.handlers.pop(9, None)
        connecting[0] = False
        dev.api_version = (1, 10)
        dev.invalid_password = False
        dev.hello_trailer_msgs = []
        dev.on_frame = None
        dev.latency = D
        dev.name = "dev"
        if beh == "noname":
            # older firmware: no name in the hello answer, and no answer to a description request either -- the session
            # is established by hello (+ login) alone
            dev.name = ""
            dev.auto = {1, 3, 5, 7, 11}
            connecting[0] = True

            def devinfo(s_, _p):
                # ... i.e. none while the connect is still being made (the harness's own probes come later)
                if not connecting[0]:
                    s_.send(pb.DeviceInfoResponse(name="", mac_address="AA:BB:CC:DD:EE:FF"))

            dev.handlers[9] = devinfo
        elif beh == "slowhello":
            dev.latency = 6.0  # answers, but only after 6 s (longer than disconnect() waits for a connect to finish)
        elif beh == "badversion":
            dev.api_version = (3, 0)
        elif beh == "badpass":
            dev.invalid_password = True
        elif beh == "silent":
            dev.auto = set()
        elif beh == "eof":
            def onf(s, t, p):
                if t == 1:
                    env.loop.sim_after(D, s.transport.feed_eof)
                    return True
                return False
            dev.on_frame = onf
        elif beh == "garbage":
            def onf(s, t, p):
                if t == 1:
                    env.loop.sim_after(D, s.transport.feed, b"\x07\x07\x07" if not noise else b"\x05\x00\x00")
                    return True
                return False
            dev.on_frame = onf
        elif beh == "discreq":
            dev.hello_trailer_msgs = [pb.DisconnectRequest()]

    async def settle():
        await asyncio.sleep(3 / 64)

    async def run_calls(main_name: str, coro, interfere: dict | None) -> list[tuple[str, str, object]]:
        """Run the call (and the scripted interfering action); returns [(name, 'ok'|'exc', value)] in completion order."""
        tag = f"{main_name}#{len(env.tasks)}"
        t = env.spawn(tag, coro)
        others = []
        if interfere and "+connect" in interfere["what"] and case.get("reconnect_in_on_stop"):
            # the stop callback already reconnects in this history: one reconnect mechanism at a time
            interfere = {**interfere, "what": interfere["what"].split("+")[0]}
        if interfere:
            async def later():
                await asyncio.sleep(interfere["at"] / 64)
                w = interfere["what"]
                if w == "probe":
                    # an API call made WHILE the connect call is still running: no authenticated session yet
                    if t.done():
                        return "too-late"
                    classes.add("probe_during_connect")
                    for j in range(3):
                        name = names[(stats["rot"] + interfere["at"] + j) % len(names)]
                        n_wr = sum(tr.n_writes for tr in env.transports)
                        try:
                            r = R[name](cli, j)
                            if asyncio.iscoroutine(r):
                                pt = asyncio.Task(r, loop=env.loop, eager_start=True)
                                if not pt.done():
                                    pt.cancel()
                                    viol.append(V(f"c19:call-accepted-while-connecting:{name}", f"{name} did not fail at once while {main_name} was still running"))
                                    continue
                                pt.result()
                            viol.append(V(f"c19:call-accepted-while-connecting:{name}", f"{name} returned normally while {main_name} was still running"))
                        except APIConnectionError:
                            pass
                        except BaseException as e:  # noqa: BLE001
                            viol.append(V(f"c19:call-while-connecting:raised:{type(e).__name__}", f"{name} raised {e!r} instead of an APIConnectionError"))
                        if sum(tr.n_writes for tr in env.transports) != n_wr:
                            viol.append(V("c19:wrote-while-connecting", f"{name} wrote to the transport while {main_name} was still running"))
                    # ... and a second connect attempt while this one is in progress is refused at once, touching nothing
                    if not t.done():
                        n_conn, n_tcp = len(env.conns), len(env.tcp_calls)
                        stage = env.conns[-1].connection_state.name if env.conns else "none"
                        st2 = asyncio.Task(cli.start_connection(), loop=env.loop, eager_start=True)
                        if not st2.done():
                            st2.cancel()
                            viol.append(V(f"c19:second-start-accepted-while-attempt-in-progress:{stage}", f"start_connection() did not fail at once while {main_name} was still running (connection state {stage})"))
                        elif st2.cancelled() or not isinstance(st2.exception(), APIConnectionError):
                            viol.append(V(f"c19:second-start-while-attempt-in-progress:{type(st2.exception()).__name__ if not st2.cancelled() else 'cancelled'}", f"state {stage}"))
                        if (len(env.conns), len(env.tcp_calls)) != (n_conn, n_tcp):
                            viol.append(V(f"c19:second-start-disturbed-attempt:{stage}", f"connections {n_conn}->{len(env.conns)}, TCP attempts {n_tcp}->{len(env.tcp_calls)}"))
                        classes.add("second_start_probe:" + stage)
                    return "probed"
                if w == "cancel":
                    if not t.done():
                        env.cancel(tag)
                    return "cancelled-it"
                if w == "disccancel":
                    # a graceful disconnect() is started while the connect is running, and ITS caller gives up 6.75 s
                    # into the step (after the disconnect gave up waiting for the connect, and after a slow device answered)
                    classes.add("disconnect_cancelled_during_connect")
                    dn = f"dc-inner#{len(env.tasks)}"
                    d = env.spawn(dn, cli.disconnect())
                    await asyncio.sleep(max(0.0, 6.75 - interfere["at"] / 64))
                    if not d.done():
                        env.cancel(dn)
                    dev.latency = D
                    return "disconnect-cancelled"
                if w in ("force+connect", "disconnect+connect", "cancel+connect"):
                    # abort the running call and start the next attempt the moment disconnect() has returned – before
                    # the aborted call's own task has had a chance to unwind
                    classes.add("reconnect_right_after_abort")
                    if w == "cancel+connect" and not t.done():
                        env.cancel(tag)
                    await cli.disconnect(force=(w != "disconnect+connect"))
                    env.tcp_script = [("ok", 4 * D)]
                    set_device(None)
                    await cli.connect(on_stop=on_stop, login=True)
                    return "reconnected"
                await cli.disconnect(force=(w == "force"))
            others.append((f"i:{interfere['what']}#{len(env.tasks)}", None))
            others[-1] = (others[-1][0], env.spawn(others[-1][0], later()))
        await asyncio.wait([t] + [x[1] for x in others])
        order = []
        for e in env.trace:
            if e["kind"] == "op_end" and (e["op"] == tag or any(e["op"] == n for n, _ in others)):
                r = env.results[e["op"]]
                order.append((e["op"], r[0], r[1]))
        return order

    def apply(order, what: str):
        """Update the model from call outcomes, in completion order."""
        for name, status, val in order:
            if name.startswith(("i:cancel", "i:probe", "i:disccancel")) and "+connect" not in name:
                continue
            if name.startswith("i:") and "+connect" in name:
                # disconnect() followed at once by a new connect(): the client was free, so the attempt must be accepted;
                # it may fail only with a classified connection error
                if status == "ok":
                    model["s"] = "CONNECTED"
                    model["dead_started"] = False
                    stats["sessions"] += 1
                elif isinstance(val, APIConnectionError) and "Already connected" not in str(val):
                    model["s"] = "IDLE"
                elif isinstance(val, APIConnectionError):
                    viol.append(V("c19:wedged:start-refused-right-after-disconnect", repr(val)[:200]))
                    model["s"] = "IDLE"
                else:
                    viol.append(V(f"c19:reconnect-after-abort:raised:{type(val).__name__}", f"connect() issued right after disconnect() returned raised {val!r}"))
                    model["s"] = "IDLE"
                continue
            if name.startswith("i:"):  # a disconnect()/force that returned
                if status == "ok":
                    model["s"] = "IDLE"
                    model["dead_started"] = False
                else:
                    viol.append(V(f"c19:disconnect-raised:{type(val).__name__}", repr(val)[:200]))
                continue
            if status == "ok":
                model["s"] = {"start": "STARTED", "finish": "CONNECTED", "connect": "CONNECTED"}[what]
                model["dead_started"] = False
            elif any(n.startswith("i:") and "+connect" in n for n, _s, _v in order):
                pass  # the aborted call failing late says nothing about the attempt that replaced it
            else:
                model["s"] = "IDLE"
                model["dead_started"] = False
                if not isinstance(val, (APIConnectionError, asyncio.CancelledError)):
                    viol.append(V(f"c19:{what}-raised:{type(val).__name__}", repr(val)[:200]))

    async def probe(step_idx: int):
        """Black-box comparison of the model with what the client accepts/refuses, at a settled point."""
        stats["probes"] += 1
        st_ = model["s"]
        n_tcp = len(env.tcp_calls)
        n_sock = len(env.sockets)
        n_wr = sum(tr.n_writes for tr in env.transports)
        if st_ == "CONNECTED":
            try:
                info = await cli.device_info()
                if info.name != dev.name:
                    viol.append(V("c19:connected-but-wrong-answer", repr(info)[:100]))
            except BaseException as e:  # noqa: BLE001
                viol.append(V(f"c19:connected-but-unusable:{type(e).__name__}", f"step {step_idx}: model CONNECTED (connect returned normally, nothing ended the session) but device_info() raised {e!r}"))
                model["s"] = "IDLE"
                return
        else:
            # every API call must be refused with a connection error and write nothing
            for j in range(3):
                name = names[(stats["rot"] + step_idx * 3 + j) % len(names)]
                try:
                    r = R[name](cli, step_idx + j)
                    if asyncio.iscoroutine(r) or hasattr(r, "__await__"):
                        r = await asyncio.wait_for(r, 500)
                    viol.append(V(f"c19:call-accepted-while-{st_}:{name}", f"step {step_idx}: {name} returned {r!r} although no authenticated session is alive"))
                except APIConnectionError:
                    pass
                except BaseException as e:  # noqa: BLE001
                    viol.append(V(f"c19:call-while-{st_}:raised:{type(e).__name__}", f"step {step_idx}: {name} raised {e!r} instead of an APIConnectionError"))
            if sum(tr.n_writes for tr in env.transports) != n_wr:
                viol.append(V(f"c19:wrote-while-{st_}", f"step {step_idx}: an API call made while no session is alive wrote to the transport"))
        if st_ != "IDLE":
            if model["dead_started"]:
                return
            # a second start must be refused and must not open anything
            try:
                await cli.start_connection(on_stop)
                viol.append(V(f"c19:start-accepted-while-{st_}", f"step {step_idx}: start_connection returned normally on a client that is {st_}"))
            except APIConnectionError:
                if len(env.tcp_calls) != n_tcp or len(env.sockets) != n_sock:
                    viol.append(V(f"c19:start-while-{st_}:opened-socket", f"step {step_idx}"))
            except BaseException as e:  # noqa: BLE001
                viol.append(V(f"c19:start-while-{st_}:raised:{type(e).__name__}", repr(e)[:200]))

    async def probe_idle_accepts(step_idx: int):
        """IDLE: a new attempt is accepted (observable: a TCP attempt starts).  Uses a refused TCP connect so that
        the client is IDLE again afterwards."""
        n_tcp = len(env.tcp_calls)
        env.tcp_script = [("refuse", D)]
        try:
            await cli.start_connection(on_stop)
            viol.append(V("c19:harness:start-succeeded-on-refused-tcp", ""))
        except APIConnectionError as e:
            if len(env.tcp_calls) == n_tcp:
                viol.append(V("c19:wedged:start-refused-while-idle", f"step {step_idx}: no attempt in progress and no session alive, but start_connection raised {e!r} without attempting to connect"))
        except BaseException as e:  # noqa: BLE001
            viol.append(V(f"c19:start-while-IDLE:raised:{type(e).__name__}", repr(e)[:200]))

    def rejected(order, step, what, i):
        """The device refused the session (incompatible version; password flagged invalid on a login): no authenticated
        session exists, so the call must not have succeeded -- whatever is issued afterwards would be written to it."""
        devb = step.get("dev")
        if devb == "badversion" or (devb == "badpass" and step.get("login", True)):
            if any(n.startswith(what) and st2 == "ok" for n, st2, _ in order):
                viol.append(V(f"c19:session-without-authentication:{devb}", f"step {i}: {what}() returned normally although the device answered with {devb} (client password {case.get('password')!r})"))

    async def main():
        for i, step in enumerate(case["steps"]):
            op = step["op"]
            st_ = model["s"]
            if op == "start":
                if st_ != "IDLE":
                    stats["skipped"] += 1
                    continue
                stats["sessions"] += 1
                env.tcp_script = [{"ok": ("ok", 4 * D), "refuse": ("refuse", 2 * D), "hang": ("hang",)}[step.get("tcp", "ok")]]
                set_device(step.get("dev"))
                env.sock_fault = step.get("sock_fault")  # e.g. the peer reset the fresh connection: getpeername() fails
                order = await run_calls("start", cli.start_connection(on_stop), step.get("interfere"))
                if env.sock_fault:
                    classes.add("socket_setup_fault")
                    if any(n.startswith("start") and st2 == "ok" for n, st2, _ in order) and env.sock_fault == "getpeername":
                        viol.append(V("c19:start-succeeded-on-dead-socket", f"step {i}"))
                env.sock_fault = None
                apply(order, "start")
            elif op == "finish":
                if st_ != "STARTED":
                    stats["skipped"] += 1
                    continue
                if not model["dead_started"]:
                    set_device(step.get("dev"))
                order = await run_calls("finish", cli.finish_connection(login=bool(step.get("login", True))), step.get("interfere"))
                connecting[0] = False
                if model["dead_started"] and any(n.startswith("finish") and s == "ok" for n, s, _ in order):
                    viol.append(V("c19:finish-succeeded-on-dead-connection", f"step {i}"))
                if not model["dead_started"]:
                    rejected(order, step, "finish", i)
                apply(order, "finish")
            elif op == "connect":
                if st_ != "IDLE":
                    stats["skipped"] += 1
                    continue
                stats["sessions"] += 1
                env.tcp_script = [{"ok": ("ok", 4 * D), "refuse": ("refuse", 2 * D), "hang": ("hang",)}[step.get("tcp", "ok")]]
                set_device(step.get("dev"))
                order = await run_calls("connect", cli.connect(on_stop=on_stop, login=bool(step.get("login", True))), step.get("interfere"))
                connecting[0] = False
                rejected(order, step, "connect", i)
                apply(order, "connect")
            elif op == "disc_cancel":
                # graceful disconnect() on a live session; the device does not answer; the caller gives up after 1 s:
                # the session is still alive afterwards
                if st_ != "CONNECTED":
                    stats["skipped"] += 1
                    continue
                classes.add("disconnect_cancelled_on_live_session")
                dev.auto = set()
                dn = f"dc-live#{len(env.tasks)}"
                d = env.spawn(dn, cli.disconnect())
                await asyncio.sleep(1.0)
                if not d.done():
                    env.cancel(dn)
                await settle()
                continue
            elif op == "disconnect":
                if st_ != "CONNECTED":
                    classes.add("close_before_connected")
                set_device(None)
                r = await run_calls("disc", cli.disconnect(force=bool(step.get("force"))), None)
                for name, status, val in r:
                    if status != "ok":
                        viol.append(V(f"c19:disconnect-raised:{type(val).__name__}", repr(val)[:200]))
                model["s"] = "IDLE"
                model["dead_started"] = False
            elif op == "dev":
                if st_ == "IDLE" or not dev.sessions or dev.session.transport.closing:
                    stats["skipped"] += 1
                    continue
                what = step["what"]
                tr = dev.session.transport
                if st_ == "STARTED":
                    classes.add("close_before_connected")
                if what == "eof":
                    tr.feed_eof()
                elif what == "reset":
                    tr.reset()
                elif what == "garbage":
                    if noise and dev.session.noise is None:
                        tr.feed(b"\x05\x00\x00")
                    else:
                        tr.feed(b"\x07\x07\x07" if not noise else b"\x05\x00\x00")
                elif what == "discreq":
                    if st_ != "CONNECTED":
                        stats["skipped"] += 1
                        continue
                    tr.feed(dev.session.encode(pb.DisconnectRequest()))
                elif what.startswith("resp+"):
                    # a request is in flight; its answer and the ending arrive in ONE chunk
                    if st_ != "CONNECTED":
                        stats["skipped"] += 1
                        continue
                    classes.add("ending_with_request_in_flight")
                    tail = what[5:]

                    def answer(s_, p_, tail=tail):
                        data = s_.encode(pb.DeviceInfoResponse(name=dev.name))
                        if tail == "discreq":
                            data += s_.encode(pb.DisconnectRequest())
                        elif tail == "garbage":
                            data += b"\x07\x07\x07" if not noise else b"\x05\x00\x00"
                        s_.send_raw(data)
                        if tail == "eof":
                            env.loop.sim_after(s_.dev.latency, s_.transport.feed_eof)
                    dev.handlers[9] = answer
                    r = await run_calls("devinfo", cli.device_info(), None)
                    dev.handlers.pop(9, None)
                    for name, status, val in r:
                        if status != "ok" and not isinstance(val, APIConnectionError):
                            viol.append(V(f"c19:request-raised:{type(val).__name__}", repr(val)[:200]))
                elif what == "pingtimeout_busy":
                    if st_ != "CONNECTED":
                        stats["skipped"] += 1
                        continue
                    # the device vanishes while the application keeps issuing fire-and-forget commands (what the client
                    # itself writes says nothing about the device): the session is still given up within 6.5 K
                    classes.add("vanished_while_the_application_keeps_sending")
                    dev.auto = set()
                    for _ in range(16):
                        await asyncio.sleep(K / 2)
                        try:
                            cli.switch_command(1, True)
                        except APIConnectionError:
                            break
                elif what in ("pingtimeout", "pingtimeout_late"):
                    if st_ != "CONNECTED":
                        stats["skipped"] += 1
                        continue
                    if what == "pingtimeout_late":
                        # a healthy stretch first (pings answered), then the device vanishes without a trace
                        classes.add("vanished_after_answered_pings")
                        await asyncio.sleep(2.5 * K)
                    dev.auto = set()
                    await asyncio.sleep(7 * K)
                if st_ == "STARTED":
                    model["dead_started"] = True  # the caller still owns an unfinished attempt
                else:
                    model["s"] = "IDLE"
            await settle()
            await probe(i)
            if model["s"] == "IDLE" and step.get("probe_idle", True):
                await probe_idle_accepts(i)
                await settle()
        env.log("history_done")
        closing_down[0] = True
        await cli.disconnect(force=True)

    env.loop.sim_at(0, lambda: env.spawn("main", main()))
    env.loop.horizon = START + 5000
    try:
        env.run()
    except IterationCap as e:
        env.close()
        raise HarnessError(f"C19: {e}") from e
    r = env.results.get("main")
    if r is None:
        viol.append(V("c19:history-hung", "the history did not run to its end (an awaited call never finished)"))
    elif r[0] != "ok":
        env.close()
        raise HarnessError(f"C19: harness coroutine failed: {r[1]!r}")
    if stats["sessions"] >= 2:
        classes.add("multi_session")
    if noise:
        classes.add("noise")
    res.classes = sorted(classes)
    res.nontrivial = stats["sessions"] >= 2 and "close_before_connected" in classes
    res.info = {"sessions": stats["sessions"], "probes": stats["probes"], "skipped_steps": stats["skipped"], "final_model": model["s"]}
    env.close()
    return res


# ------------------------------------------------------------------ generators
INTERFERE = st.one_of(st.none(), st.none(), st.builds(lambda w, a: {"what": w, "at": a}, st.sampled_from(["disconnect", "force", "cancel", "probe", "probe", "force+connect", "disconnect+connect", "cancel+connect"]), st.sampled_from([0, 1, 2, 3, 4, 5, 6, 8, 12, 64 * 6])))
DEVB = st.sampled_from([None, None, None, "badversion", "badpass", "silent", "eof", "garbage", "discreq", "noname"])


@st.composite
def _case(draw, tier):
    steps = []
    s = "IDLE"
    for _ in range(draw(st.integers(2, 14))):
        r = draw(st.integers(0, 9))
        if s == "IDLE":
            if r <= 4:
                tcp = draw(st.sampled_from(["ok", "ok", "ok", "refuse", "hang"]))
                itf = draw(INTERFERE)
                steps.append({"op": "start", "tcp": tcp, "interfere": itf})
                s = "STARTED" if tcp == "ok" and (not itf or itf["what"] == "probe") else "IDLE"
                if tcp == "ok" and not itf and draw(st.integers(0, 5)) == 3:
                    steps[-1]["sock_fault"] = draw(st.sampled_from(["getpeername", "setblocking", "nodelay"]))
                    s = "IDLE"
            elif r <= 8:
                tcp = draw(st.sampled_from(["ok", "ok", "ok", "refuse"]))
                devb = draw(DEVB)
                itf = draw(INTERFERE)
                if tcp == "ok" and draw(st.integers(0, 7)) == 5:
                    devb, itf = "slowhello", {"what": "disccancel", "at": draw(st.sampled_from([1, 8, 32]))}
                steps.append({"op": "connect", "tcp": tcp, "dev": devb, "login": draw(st.booleans()), "interfere": itf})
                s = "CONNECTED" if tcp == "ok" and ((devb is None and (not itf or itf["what"] == "probe")) or devb == "slowhello") else "IDLE"
            else:
                steps.append({"op": "disconnect", "force": draw(st.booleans())})
        elif s == "STARTED":
            if r <= 4:
                devb = draw(DEVB)
                itf = draw(INTERFERE)
                steps.append({"op": "finish", "dev": devb, "login": draw(st.booleans()), "interfere": itf})
                s = "CONNECTED" if devb is None and (not itf or itf["what"] == "probe") else "IDLE"
            elif r <= 7:
                steps.append({"op": "disconnect", "force": draw(st.booleans())})
                s = "IDLE"
            else:
                steps.append({"op": "dev", "what": draw(st.sampled_from(["eof", "reset", "garbage"]))})
                # stays STARTED (dead) until finish/disconnect
        else:
            if r <= 3:
                steps.append({"op": "disconnect", "force": draw(st.booleans())})
            elif r == 4 and draw(st.booleans()):
                steps.append({"op": "disc_cancel"})
                continue
            else:
                steps.append({"op": "dev", "what": draw(st.sampled_from(["eof", "reset", "garbage", "discreq", "pingtimeout", "pingtimeout_late", "pingtimeout_busy", "resp+discreq", "resp+garbage", "resp+eof"]))})
            s = "IDLE"
    return {"noise": draw(st.integers(0, 3)) == 0, "keepalive": 2.0, "rot": draw(st.integers(0, 50)), "password": draw(st.sampled_from([None, "pw"])), "steps": steps,
            "reconnect_in_on_stop": draw(st.sampled_from([False, False, False, True, "after_await"]))}


def strategy(tier):
    return _case(tier)


def _disccancel_cases():
    second = [{"op": "connect", "tcp": "ok", "dev": None, "login": True, "interfere": None}, {"op": "disconnect", "force": False}]
    for noise in (False, True):
        for at in (1, 8, 32):
            for login in (False, True):
                first = {"op": "connect", "tcp": "ok", "dev": "slowhello", "login": login, "interfere": {"what": "disccancel", "at": at}}
                for what in ("eof", "reset", "garbage", "pingtimeout", "pingtimeout_late", "pingtimeout_busy", "discreq"):
                    yield {"noise": noise, "keepalive": 2.0, "rot": at, "steps": [first, {"op": "dev", "what": what}] + second}
                yield {"noise": noise, "keepalive": 2.0, "rot": at, "steps": [first, {"op": "disconnect", "force": True}] + second}


def _late_cases():
    second = [{"op": "connect", "tcp": "ok", "dev": None, "login": True, "interfere": None}, {"op": "disconnect", "force": False}]
    for noise in (False, True):
        for f in ("getpeername", "setblocking", "nodelay"):
            yield {"noise": noise, "keepalive": 2.0, "rot": 3, "steps": [{"op": "start", "tcp": "ok", "interfere": None, "sock_fault": f}] + second}
        for what in ("eof", "reset", "discreq", "pingtimeout", "garbage"):
            yield {"noise": noise, "keepalive": 2.0, "rot": 5, "steps": [second[0], {"op": "disc_cancel"}, {"op": "dev", "what": what}] + second}
        yield {"noise": noise, "keepalive": 2.0, "rot": 6, "steps": [second[0], {"op": "disc_cancel"}, {"op": "disconnect", "force": True}] + second}


def enumerated(tier):
    yield from _late_cases()
    yield from _disccancel_cases()
    # disconnect (force / graceful) at every stage, followed by a complete second session
    second = [{"op": "connect", "tcp": "ok", "dev": None, "login": True, "interfere": None}, {"op": "disconnect", "force": False}]
    for noise in (False, True):
        for force in (False, True):
            yield {"noise": noise, "rot": 0, "steps": [{"op": "disconnect", "force": force}] + second}
            yield {"noise": noise, "rot": 3, "steps": [{"op": "start", "tcp": "ok", "interfere": None}, {"op": "disconnect", "force": force}] + second}
            yield {"noise": noise, "rot": 6, "steps": [{"op": "start", "tcp": "ok", "interfere": None}, {"op": "finish", "dev": None, "login": True, "interfere": None}, {"op": "disconnect", "force": force}] + second}
            for at in (0, 1, 2, 3, 4, 5, 6, 8):
                itf = {"what": "force" if force else "disconnect", "at": at}
                yield {"noise": noise, "rot": at, "steps": [{"op": "start", "tcp": "ok", "interfere": itf}] + second}
                yield {"noise": noise, "rot": at + 9, "steps": [{"op": "connect", "tcp": "ok", "dev": None, "login": True, "interfere": itf}] + second}
                yield {"noise": noise, "rot": at + 18, "steps": [{"op": "start", "tcp": "ok", "interfere": None}, {"op": "finish", "dev": None, "login": True, "interfere": itf}] + second}
        for at in (0, 1, 2, 3, 4, 5, 6, 8):
            for w in ("force+connect", "disconnect+connect", "cancel+connect"):
                itf = {"what": w, "at": at}
                yield {"noise": noise, "rot": at, "steps": [{"op": "start", "tcp": "ok", "interfere": itf}, {"op": "disconnect", "force": False}] + second}
                yield {"noise": noise, "rot": at, "steps": [{"op": "connect", "tcp": "ok", "dev": None, "login": True, "interfere": itf}, {"op": "disconnect", "force": False}] + second}
                yield {"noise": noise, "rot": at, "steps": [{"op": "start", "tcp": "ok", "interfere": None}, {"op": "finish", "dev": "silent", "login": True, "interfere": {"what": w, "at": at + 1}}, {"op": "disconnect", "force": True}] + second}
        for at in (0, 1, 2, 3, 4, 5, 6, 8):
            itf = {"what": "cancel", "at": at}
            yield {"noise": noise, "rot": at, "steps": [{"op": "connect", "tcp": "ok", "dev": None, "login": True, "interfere": itf}] + second}
            for rot in (0, 17, 34):
                itf = {"what": "probe", "at": at}
                yield {"noise": noise, "rot": rot, "steps": [{"op": "connect", "tcp": "ok", "dev": None, "login": True, "interfere": itf}] + second}
                yield {"noise": noise, "rot": rot, "steps": [{"op": "connect", "tcp": "ok", "dev": "silent", "login": True, "interfere": {"what": "probe", "at": at + 6}}] + second}
        # a nameless device that answers no description request: sessions are established all the same, twice
        for login in (False, True):
            yield {"noise": noise, "rot": 7, "steps": [{"op": "connect", "tcp": "ok", "dev": "noname", "login": login, "interfere": None}, {"op": "disconnect", "force": False},
                                                      {"op": "connect", "tcp": "ok", "dev": "noname", "login": login, "interfere": None}, {"op": "dev", "what": "eof"}] + second}
            yield {"noise": noise, "rot": 9, "steps": [{"op": "start", "tcp": "ok", "interfere": None}, {"op": "finish", "dev": "noname", "login": login, "interfere": None}, {"op": "disconnect", "force": True}] + second}
        # every failing device behaviour / TCP outcome, then a second session; every device ending at both stages
        for devb in ("badversion", "badpass", "silent", "eof", "garbage", "discreq"):
            yield {"noise": noise, "rot": 20, "steps": [{"op": "connect", "tcp": "ok", "dev": devb, "login": True, "interfere": None}] + second}
            yield {"noise": noise, "rot": 23, "steps": [{"op": "start", "tcp": "ok", "interfere": None}, {"op": "finish", "dev": devb, "login": True, "interfere": None}] + second}
        for tcp in ("refuse", "hang"):
            yield {"noise": noise, "rot": 30, "steps": [{"op": "start", "tcp": tcp, "interfere": None}] + second}
        for what in ("eof", "reset", "garbage", "discreq", "pingtimeout", "resp+discreq"):
            yield {"noise": noise, "rot": 40, "reconnect_in_on_stop": True, "steps": [second[0], {"op": "dev", "what": what}] + second}
            yield {"noise": noise, "rot": 41, "reconnect_in_on_stop": "after_await", "steps": [second[0], {"op": "dev", "what": what}] + second}
        for force in (False, True):
            yield {"noise": noise, "rot": 41, "reconnect_in_on_stop": True, "steps": [second[0], {"op": "disconnect", "force": force}] + second}
        for what in ("eof", "reset", "garbage", "discreq", "pingtimeout", "resp+discreq", "resp+garbage", "resp+eof"):
            yield {"noise": noise, "rot": 33, "steps": [second[0], {"op": "dev", "what": what}] + second}
            if what in ("eof", "reset", "garbage"):
                for nxt in ({"op": "finish", "dev": None, "login": True, "interfere": None}, {"op": "disconnect", "force": False}, {"op": "disconnect", "force": True}):
                    yield {"noise": noise, "rot": 36, "steps": [{"op": "start", "tcp": "ok", "interfere": None}, {"op": "dev", "what": what}, nxt] + second}
