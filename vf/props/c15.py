"""C15 – commands carry exactly the arguments the caller supplied.

Layer S.  One case = one APIClient going through 1-3 consecutive sessions (negotiated API
version chosen per session), each with a list of command calls.  Every frame the device decodes
is compared field by field with the request the HARNESS builds from the proto descriptor by the
generic rule of the statement: key; for each supplied optional argument x its field x (rgb ->
red/green/blue) and, where the message declares it, has_x; plain arguments as given; everything
else default; durations within 0.5 ms of seconds*1000; the documented legacy encodings below the
thresholds.  Exactly one frame per command.
"""
from __future__ import annotations

import base64
import inspect
import itertools
import re

from hypothesis import strategies as st

from vf import wire
from vf.life import KEY
from vf.runner import CaseResult, HarnessError, Violation
from vf.simloop import START, IterationCap
from vf.simnet import Env, make_client

ID = "C15"
LEVEL = "exploration"
RULE = (
    "commands found by reflection (every *_command method and execute_service); arguments classified from the signature "
    "(default None = optional, other default = plain, no default = required). Enumerated: every subset of the optional "
    "arguments of every command (light 4096, climate 1024, fan 64, media_player 16, siren 16, ...) once with falsy values "
    "(0, 0.0, False, '', (0,0,0)) and once with typical values, at API 1.10; cover/climate/execute_service also at every "
    "version in {1.0,1.1,1.2,1.3,1.4,1.5,1.9,1.10,2.0}. Generated: 1-3 sessions on one client (API version per session), "
    "1-12 commands each, random subsets with values from falsy/typical/extreme (float32 max, 2^32-1, -2^31, long unicode), "
    "enum members and raw ints, fractional-millisecond durations, user services redefined under the same key between calls "
    "and sessions. non-trivial = >=1 optional argument supplied with a falsy value, or a session negotiated at a threshold "
    "version, or a service key reused with a different definition."
)
ASSUMPTIONS = [
    "argument x maps to request field x (rgb -> red, green, blue); the presence flag is the field has_x when the message declares one",
    "legacy encodings are asserted only where the statement defines them: cover below 1.1 for stop=True (STOP, also when a position is passed along: a stop call's position is void), position 1.0 (OPEN) and 0.0 (CLOSE); calls that pass tilt or a fractional position without stop have no legacy encoding and are not asserted; climate preset below 1.5 -> has_legacy_away/legacy_away=(preset is AWAY); service INT below 1.3 -> legacy_int",
    "float arguments are compared after a float32 round trip; NaN is not used (message equality is undefined for it)",
    "siren duration is an integer passed through unchanged (seconds); only light transition_length / flash_length are second->millisecond conversions",
]
EXHAUSTIVE_NOTE = "the full subset lattice of optional arguments of every command (two value vectors), and the version table for the three commands with legacy encodings"
BUDGET = {"quick": {"examples": 400, "shards": 8}, "thorough": {"examples": 20000, "shards": 16}}
FLOORS = {"falsy_optional": 0.3, "threshold_version": 0.15}

REQ_NAME = {
    "cover_command": "CoverCommandRequest", "fan_command": "FanCommandRequest", "light_command": "LightCommandRequest",
    "switch_command": "SwitchCommandRequest", "climate_command": "ClimateCommandRequest", "number_command": "NumberCommandRequest",
    "date_command": "DateCommandRequest", "time_command": "TimeCommandRequest", "datetime_command": "DateTimeCommandRequest",
    "select_command": "SelectCommandRequest", "siren_command": "SirenCommandRequest", "button_command": "ButtonCommandRequest",
    "lock_command": "LockCommandRequest", "valve_command": "ValveCommandRequest", "media_player_command": "MediaPlayerCommandRequest",
    "text_command": "TextCommandRequest", "update_command": "UpdateCommandRequest",
    "alarm_control_panel_command": "AlarmControlPanelCommandRequest",
}
DURATIONS = {"light_command": {"transition_length", "flash_length"}}
VERSIONS = [[1, 0], [1, 1], [1, 2], [1, 3], [1, 4], [1, 5], [1, 9], [1, 10], [2, 0]]
F32MAX = 3.4028234663852886e38
SERVICE_FIELDS = {0: "bool_", 1: None, 2: "float_", 3: "string_", 4: "bool_array", 5: "int_array", 6: "float_array", 7: "string_array"}

_SPEC: dict = {}


def V(sig, detail=""):
    return Violation(ID, sig, detail)


def spec() -> dict:
    """method -> {"req": cls, "required": [...], "optional": [...], "plain": {name: default}, "enum": {arg: model enum}}"""
    if _SPEC:
        return _SPEC
    from aioesphomeapi import APIClient
    from aioesphomeapi import api_pb2 as pb
    from aioesphomeapi import model as M

    for name, fn in inspect.getmembers(APIClient, predicate=inspect.isfunction):
        if not name.endswith("_command") or name.startswith("_"):
            continue
        if name not in REQ_NAME:
            _SPEC.setdefault("__uncovered__", []).append(name)
            continue
        sig = inspect.signature(fn)
        e = {"req": getattr(pb, REQ_NAME[name]), "required": [], "optional": [], "plain": {}, "enum": {}}
        for p in list(sig.parameters.values())[1:]:
            if p.name == "key":
                continue
            ann = str(p.annotation)
            m = re.match(r"\s*'?(\w+)", ann)
            cls = getattr(M, m.group(1), None) if m else None
            if isinstance(cls, type) and issubclass(cls, M.APIIntEnum):
                e["enum"][p.name] = cls
            if p.default is inspect.Parameter.empty:
                e["required"].append(p.name)
            elif p.default is None:
                e["optional"].append(p.name)
            else:
                e["plain"][p.name] = p.default
        _SPEC[name] = e
    return _SPEC


def text_enum(name: str) -> dict[str, int]:
    return wire.parse_proto_text()["enums"][name]


_TXT: dict = {}


def enum_num(enum: str, suffix: str) -> int:
    if enum not in _TXT:
        _TXT[enum] = text_enum(enum)
    for k, v in _TXT[enum].items():
        if k.endswith(suffix):
            return v
    raise HarnessError(f"{enum}: no value *{suffix} in api.proto")


# ------------------------------------------------------------------ expected request (the oracle)
def f32(x: float) -> float:
    import struct

    return struct.unpack("<f", struct.pack("<f", x))[0]


def expected_request(method: str, key: int, args: dict, api: tuple):
    """Returns (expected message | None if this call is not asserted, duration fields {name: seconds})."""
    S = spec()[method]
    cls = S["req"]
    fields = cls.DESCRIPTOR.fields_by_name
    exp = cls()
    exp.key = key
    durs = {}
    supplied = {a: v for a, v in args.items() if v is not None}
    if method == "cover_command" and api < (1, 1):
        stop = bool(supplied.get("stop"))
        pos = supplied.get("position")
        if "tilt" in supplied:
            return None, {}
        if stop:
            # stop together with a position: a cover cannot do both; the device itself drops the position of a stop
            # call (ESPHome CoverCall validation), so the one legacy command that can be sent is STOP
            cmd = enum_num("LegacyCoverCommand", "_STOP")
        elif not stop and pos == 1.0:
            cmd = enum_num("LegacyCoverCommand", "_OPEN")
        elif not stop and pos == 0.0:
            cmd = enum_num("LegacyCoverCommand", "_CLOSE")
        else:
            return None, {}
        exp.has_legacy_command = True
        exp.legacy_command = cmd
        return exp, {}
    for a, v in supplied.items():
        if a == "rgb":
            exp.has_rgb = True
            exp.red, exp.green, exp.blue = v
        elif a in DURATIONS.get(method, ()):
            setattr(exp, "has_" + a, True)
            durs[a] = v
        elif method == "climate_command" and a == "preset" and api < (1, 5):
            exp.has_legacy_away = True
            exp.legacy_away = int(v) == enum_num("ClimatePreset", "_AWAY")
        else:
            if a not in fields:
                raise HarnessError(f"{method}: argument {a} has no field in {cls.__name__}")
            setattr(exp, a, v)
            if "has_" + a in fields:
                setattr(exp, "has_" + a, True)
    return cls.FromString(exp.SerializeToString()), durs


def expected_service(key: int, sargs: list, data: dict, api: tuple):
    from aioesphomeapi import api_pb2 as pb

    exp = pb.ExecuteServiceRequest(key=key)
    for name, ty in sargs:
        a = exp.args.add()
        v = data[name]
        f = SERVICE_FIELDS[ty]
        if f is None:
            f = "int_" if api >= (1, 3) else "legacy_int"
        if f.endswith("_array"):
            getattr(a, f).extend(v)
        else:
            setattr(a, f, v)
    return pb.ExecuteServiceRequest.FromString(exp.SerializeToString())


def diff_messages(method: str, got, exp, durs: dict) -> str | None:
    """Name of the first field that differs (None if equal)."""
    for fd in exp.DESCRIPTOR.fields:
        g = getattr(got, fd.name)
        x = getattr(exp, fd.name)
        if fd.name in durs:
            if abs(g - durs[fd.name] * 1000) > 0.5 + 1e-9:
                return fd.name
            continue
        if fd.is_repeated:
            if fd.message_type is not None:
                if len(g) != len(x):
                    return fd.name
                for i, (gi, xi) in enumerate(zip(g, x)):
                    if gi != xi:
                        sub = next((f.name for f in xi.DESCRIPTOR.fields if getattr(gi, f.name) != getattr(xi, f.name)), "?")
                        return f"{fd.name}[{i}].{sub}"
            elif list(g) != list(x):
                return fd.name
        elif g != x:
            return fd.name
    return None


# ------------------------------------------------------------------ running a case
def _mk_args(method: str, args: dict) -> dict:
    """JSON values -> call values (tuples for rgb, model enum members where the number is defined)."""
    S = spec()[method]
    out = {}
    for a, v in args.items():
        if v is None:
            out[a] = None
        elif a == "rgb":
            out[a] = tuple(v)
        elif a in S["enum"] and not isinstance(v, bool):
            try:
                out[a] = S["enum"][a](v)
            except ValueError:
                out[a] = v
        else:
            out[a] = v
    return out


def run_case(case: dict) -> CaseResult:
    from aioesphomeapi import api_pb2 as pb
    from aioesphomeapi import model as M

    res = CaseResult()
    noise = bool(case.get("noise"))
    env = Env(noise_key=KEY if noise else None)
    cli = make_client(env, noise_psk=base64.b64encode(KEY).decode() if noise else None)
    by_id = wire.ids()[0]
    record: list[dict] = []
    classes: set[str] = set()
    seen_services: dict[int, tuple] = {}
    kept: dict = {}

    async def main():
        for si, sess in enumerate(case["sessions"]):
            api = tuple(sess["api"])
            env.dev.api_version = api
            # the name a device announces in its hello is independent of the version it negotiates (it may announce none)
            env.dev.name = sess.get("dname", "dev")
            if sess.get("dname") is not None:
                classes.add("hello_name_varied")
            await cli.connect(login=True)
            if api in ((1, 0), (1, 1), (1, 2), (1, 3), (1, 4), (1, 5)):
                classes.add("threshold_version")
            for ci, c in enumerate(sess["cmds"]):
                m = c["m"]
                seq0 = len(env.trace)
                rec = {"s": si, "c": ci, "m": m, "api": api, "seq0": seq0, "raised": None}
                try:
                    if m == "execute_service":
                        sargs = [tuple(x) for x in c["sargs"]]
                        svc = M.UserService(name=c.get("name", "svc"), key=c["key"], args=[M.UserServiceArg(name=n, type=M.UserServiceArgType(t)) for n, t in sargs])
                        prev = seen_services.get(c["key"])
                        if prev is not None and prev != tuple(sargs):
                            classes.add("service_key_redefined")
                        seen_services[c["key"]] = tuple(sargs)
                        if c.get("data_id") is not None:
                            # the application keeps its argument dict (and its UserService) and passes the same objects
                            # again: every call encodes what they hold
                            classes.add("caller_owned_arguments_reused")
                            svc = kept.setdefault(("svc", c["data_id"]), svc)
                            cli.execute_service(svc, kept.setdefault(("data", c["data_id"]), dict(c["data"])))
                        else:
                            cli.execute_service(svc, dict(c["data"]))
                    else:
                        args = _mk_args(m, c["args"])
                        S = spec()[m]
                        if any(v is not None and not isinstance(v, M.APIIntEnum) and (v == 0 or v == "" or v == (0, 0, 0) or v == (0.0, 0.0, 0.0)) for a, v in args.items() if a in S["optional"]):
                            classes.add("falsy_optional")
                        getattr(cli, m)(c["key"], **args)
                except Exception as e:  # noqa: BLE001 – judged below
                    rec["raised"] = e
                rec["seq1"] = len(env.trace)
                record.append(rec)
            await cli.disconnect()

    env.loop.sim_at(0, lambda: env.spawn("main", main()))
    env.loop.horizon = START + 600
    try:
        env.run()
    except IterationCap as e:
        env.close()
        raise HarnessError(f"C15: {e}") from e
    r = env.results.get("main")
    if r is None or r[0] != "ok":
        env.close()
        raise HarnessError(f"C15: scenario did not run to the end: {r and repr(r[1])}")
    if any(e["kind"] == "written_buffer_changed" for e in env.trace):
        res.violations.append(V("c15:request-bytes-changed-after-write", "a buffer handed to transport.write() for one command was modified by a later command (the transport may still have been holding it)"))
    for rec in record:
        m = rec["m"]
        c = case["sessions"][rec["s"]]["cmds"][rec["c"]]
        frames = [(e["type"], e["payload"]) for e in env.trace[rec["seq0"]:rec["seq1"]] if e["kind"] == "rx"]
        where = f"session {rec['s']} (api {rec['api'][0]}.{rec['api'][1]}) call {rec['c']} {m}({c.get('args', c.get('data'))})"
        if rec["raised"] is not None:
            res.violations.append(V(f"c15:{m}:raised:{type(rec['raised']).__name__}", f"{where}: {rec['raised']!r}"))
            continue
        if m == "execute_service":
            exp, durs = expected_service(c["key"], [tuple(x) for x in c["sargs"]], c["data"], rec["api"]), {}
        else:
            exp, durs = expected_request(m, c["key"], _mk_args(m, c["args"]), rec["api"])
        if len(frames) != 1:
            res.violations.append(V(f"c15:{m}:frame-count:{len(frames)}", f"{where}: device decoded {len(frames)} frames"))
            continue
        if exp is None:
            classes.add("legacy_unasserted")
            continue
        t, payload = frames[0]
        cls = type(exp)
        if by_id.get(t) is not cls:
            res.violations.append(V(f"c15:{m}:wrong-message-type", f"{where}: id {t}"))
            continue
        got = cls.FromString(payload)
        bad = diff_messages(m, got, exp, durs)
        if bad is not None:
            gv = _get(got, bad)
            xv = durs[bad] * 1000 if bad in durs else _get(exp, bad)
            res.violations.append(V(f"c15:{m}:field:{re.sub(r'\[\d+\]', '[]', bad)}", f"{where}: field {bad} is {gv!r} on the wire, expected {xv!r}"))
    res.classes = sorted(classes | ({"noise"} if noise else set()) | ({"multi_session"} if len(case["sessions"]) > 1 else set()))
    res.nontrivial = bool(classes & {"falsy_optional", "threshold_version", "service_key_redefined"})
    res.info = {"sessions": len(case["sessions"]), "commands": len(record)}
    env.close()
    return res


def _get(msg, path: str):
    m = re.match(r"(\w+)\[(\d+)\]\.(\w+)", path)
    if m:
        try:
            return getattr(getattr(msg, m.group(1))[int(m.group(2))], m.group(3))
        except Exception:  # noqa: BLE001
            return None
    v = getattr(msg, path)
    return list(v) if hasattr(v, "__len__") and not isinstance(v, (str, bytes)) else v


# ------------------------------------------------------------------ value tables and generators
def values_for(method: str, arg: str) -> dict:
    """falsy / typical / extreme value lists for one argument, from the field type of the request."""
    S = spec()[method]
    if arg == "rgb":
        return {"falsy": [[0.0, 0.0, 0.0], [0, 0, 0]], "typical": [[1.0, 0.5, 0.25]], "extreme": [[F32MAX, 1e-45, -1.0]]}
    if arg in DURATIONS.get(method, ()):
        return {"falsy": [0, 0.0], "typical": [1.5, 0.57, 2, 0.0007], "extreme": [0.0004, 0.0015, 1.0005, 4294967.0, 0.0005, 1.9996, 0.29, 2.0009]}
    fd = S["req"].DESCRIPTOR.fields_by_name[arg]
    from google.protobuf.descriptor import FieldDescriptor as FD

    t = fd.type
    if t == FD.TYPE_BOOL:
        return {"falsy": [False], "typical": [True], "extreme": [True]}
    if t == FD.TYPE_FLOAT:
        return {"falsy": [0.0, 0], "typical": [0.5, 21.5, 0.1], "extreme": [F32MAX, -F32MAX, 1e-45, -0.0]}
    if t == FD.TYPE_STRING:
        return {"falsy": [""], "typical": ["x", "preset 1"], "extreme": ["ü✓" * 40, "\x00", " "]}
    if t == FD.TYPE_ENUM:
        nums = sorted({v.number for v in fd.enum_type.values})
        return {"falsy": [0], "typical": nums[1:] or [0], "extreme": [nums[-1]]}
    if t == FD.TYPE_INT32:
        return {"falsy": [0], "typical": [3, 50], "extreme": [2**31 - 1, -(2**31)]}
    if t in (FD.TYPE_UINT32, FD.TYPE_FIXED32):
        return {"falsy": [0], "typical": [5, 1700000000], "extreme": [2**32 - 1]}
    raise HarnessError(f"no values for {method}.{arg} type {t}")


def call_for(method: str, subset: tuple, vec: str, idx: int = 0, key: int = 1, plain: dict | None = None) -> dict:
    S = spec()[method]
    args = {}
    for a in S["required"]:
        vs = values_for(method, a)[vec]
        args[a] = vs[idx % len(vs)]
    for a in subset:
        vs = values_for(method, a)[vec]
        args[a] = vs[idx % len(vs)]
    for a, v in (plain or {}).items():
        args[a] = v
    return {"m": method, "key": key, "args": args}


def methods() -> list[str]:
    return sorted(m for m in spec() if not m.startswith("__"))


@st.composite
def _command(draw, tier):
    m = draw(st.sampled_from(methods() + ["light_command", "climate_command", "cover_command", "execute_service", "execute_service"]))
    key = draw(st.sampled_from([0, 1, 7, 2**32 - 1]))
    if m == "execute_service":
        return draw(_service(key=draw(st.sampled_from([1, 1, 2]))))
    S = spec()[m]
    args = {}
    for a in S["required"]:
        vs = values_for(m, a)
        args[a] = draw(st.sampled_from(vs[draw(st.sampled_from(["falsy", "typical", "extreme"]))]))
    for a in S["optional"]:
        if draw(st.integers(0, 2)) == 0:
            continue
        vs = values_for(m, a)
        args[a] = draw(st.sampled_from(vs[draw(st.sampled_from(["falsy", "falsy", "typical", "extreme"]))]))
    for a in S["plain"]:
        if draw(st.booleans()):
            args[a] = draw(st.booleans())
    return {"m": m, "key": key, "args": args}


@st.composite
def _service(draw, key):
    n = draw(st.integers(0, 5))
    sargs, data = [], {}
    for i in range(n):
        ty = draw(st.sampled_from([0, 1, 1, 2, 3, 4, 5, 6, 7]))
        name = draw(st.sampled_from(["a", "b", "c", "level", "label"]))
        if name in data:
            continue
        sargs.append([name, ty])
        data[name] = draw({
            0: st.booleans(), 1: st.sampled_from([0, 5, -3, 2**31 - 1, -(2**31)]), 2: st.sampled_from([0.0, 1.5, -2.25, 1e10]),
            3: st.sampled_from(["", "s", "ü" * 30]), 4: st.lists(st.booleans(), max_size=3), 5: st.lists(st.sampled_from([0, -1, 7, 2**31 - 1]), max_size=3),
            6: st.lists(st.sampled_from([0.0, 0.5, -1.25]), max_size=3), 7: st.lists(st.sampled_from(["", "x", "yz"]), max_size=3)}[ty])
    return {"m": "execute_service", "key": key, "sargs": sargs, "data": data}


@st.composite
def _case(draw, tier):
    sessions = []
    for _ in range(draw(st.sampled_from([1, 1, 2, 3]))):
        api = draw(st.sampled_from(VERSIONS + [[1, 10], [1, 10]]))
        cmds = draw(st.lists(_command(tier), min_size=1, max_size=12))
        for i, c in list(enumerate(cmds)):
            if c["m"] == "execute_service" and draw(st.integers(0, 2)) == 0:
                c["data_id"] = f"{len(sessions)}.{i}"
                cmds.insert(draw(st.integers(i + 1, len(cmds))), dict(c))
        sessions.append({"api": api, "cmds": cmds})
        if draw(st.integers(0, 3)) == 1:
            sessions[-1]["dname"] = draw(st.sampled_from(["", "", "kitchen", "ü"]))
    return {"noise": draw(st.integers(0, 4)) == 0, "sessions": sessions}


def strategy(tier):
    return _case(tier)


def enumerated(tier):
    # the full subset lattice of every command's optional arguments, two value vectors, 96 commands per session
    batch: list = []

    def flush(api=(1, 10)):
        nonlocal batch
        if batch:
            c = {"noise": False, "sessions": [{"api": list(api), "cmds": batch}]}
            batch = []
            return c
        return None

    for m in methods():
        S = spec()[m]
        opt = S["optional"]
        plains = [dict(zip(S["plain"], vals)) for vals in itertools.product([False, True], repeat=len(S["plain"]))] or [{}]
        i = 0
        for r in range(len(opt) + 1):
            for subset in itertools.combinations(opt, r):
                for vec in ("falsy", "typical"):
                    for pl in plains:
                        batch.append(call_for(m, subset, vec, i, plain=pl))
                        i += 1
                        if len(batch) >= 96:
                            yield flush()
    c = flush()
    if c:
        yield c
    # version table for the commands with legacy encodings
    for api in VERSIONS:
        cmds = []
        for pos, tilt, stop in itertools.product([None, 0.0, 1.0, 0.5], [None, 0.0, 0.5], [False, True]):
            cmds.append({"m": "cover_command", "key": 1, "args": {"position": pos, "tilt": tilt, "stop": stop}})
        for preset in [None] + sorted(text_enum("ClimatePreset").values()):
            for extra in ({}, {"mode": 1}, {"custom_preset": ""}):
                cmds.append({"m": "climate_command", "key": 2, "args": {"preset": preset, **extra}})
        for iv in (0, 5, -7, 2**31 - 1):
            cmds.append({"m": "execute_service", "key": 3, "sargs": [["i", 1], ["f", 2]], "data": {"i": iv, "f": 0.5}})
            cmds.append({"m": "execute_service", "key": 3, "sargs": [["s", 3], ["i", 1], ["ia", 5]], "data": {"i": iv, "s": "", "ia": [iv]}})
        yield {"noise": api == [1, 10], "sessions": [{"api": api, "cmds": cmds}]}
    # the same argument dict (and service object) passed three times
    for api in ([1, 10], [1, 2]):
        c1 = {"m": "execute_service", "key": 4, "sargs": [["enabled", 0], ["level", 1], ["label", 3]], "data": {"enabled": True, "level": 7, "label": "x"}, "data_id": "k1"}
        c2 = {"m": "execute_service", "key": 5, "sargs": [["ia", 5]], "data": {"ia": [1, 2]}, "data_id": "k2"}
        yield {"noise": False, "sessions": [{"api": api, "cmds": [dict(c1), dict(c2), dict(c1), {"m": "switch_command", "key": 1, "args": {"state": True}}, dict(c1), dict(c2)]}]}
    # long text values: the request's size sweeps across the one-/two-byte length boundary of the plaintext framing
    # (and stays well-formed over Noise)
    for noise in (False, True):
        cmds = []
        for L in list(range(108, 136)) + [16370, 16384]:
            v = "x" * L
            cmds.append({"m": "text_command", "key": 1, "args": {"state": v}})
            cmds.append({"m": "select_command", "key": 2, "args": {"state": v}})
            cmds.append({"m": "siren_command", "key": 3, "args": {"tone": v}})
            cmds.append({"m": "media_player_command", "key": 4, "args": {"media_url": v, "announcement": False}})
            cmds.append({"m": "light_command", "key": 5, "args": {"state": True, "effect": v}})
        yield {"noise": noise, "sessions": [{"api": [1, 10], "cmds": cmds}]}
    # one client, consecutive sessions on both sides of each threshold, same service key redefined
    for a, b in (([1, 2], [1, 3]), ([1, 3], [1, 2]), ([1, 0], [1, 1]), ([1, 4], [1, 5]), ([1, 10], [1, 2])):
        def mk(sargs, data):
            return {"m": "execute_service", "key": 9, "sargs": sargs, "data": data}
        s1 = [mk([["level", 1]], {"level": 5}), {"m": "cover_command", "key": 1, "args": {"stop": True}}, {"m": "climate_command", "key": 1, "args": {"preset": 2}}]
        s2 = [mk([["level", 1], ["label", 3]], {"level": 6, "label": "x"}), mk([["level", 2]], {"level": 0.5}), {"m": "cover_command", "key": 1, "args": {"position": 1.0}}, {"m": "climate_command", "key": 1, "args": {"preset": 2}}]
        yield {"noise": False, "sessions": [{"api": a, "cmds": s1}, {"api": b, "cmds": s2}, {"api": a, "cmds": s1 + s2}]}
        yield {"noise": False, "sessions": [{"api": a, "cmds": s1, "dname": ""}, {"api": b, "cmds": s2, "dname": ""}, {"api": a, "cmds": s1 + s2, "dname": "kitchen"}]}


def post_run(total, tier):
    total.extra["commands_found_by_reflection"] = methods() + ["execute_service"]
    total.extra["command_methods_without_spec"] = spec().get("__uncovered__", [])
    return None
