"""C01 – plaintext stream reassembly is lossless and segmentation-independent.

Layer F.  Oracle: independent streaming parser (vf.wire); after *each*
data_received call the deliveries must equal the frames whose last byte has
arrived (in order, once, never early, never lost).
"""
from __future__ import annotations

from hypothesis import strategies as st

from vf import fstub, gen, wire
from vf.runner import CaseResult, Violation

ID = "C01"
LEVEL = "exploration"
RULE = (
    "case = list of plaintext frames (type ids incl. multi-byte varints, payload lengths 0..70001) "
    "encoded by the independent encoder, a segmentation (sorted cut offsets, duplicates = empty chunks, "
    "biased to header/varint/frame-boundary offsets) and a buffer kind per chunk "
    "(bytes/bytearray/memoryview/sliced memoryview/multi-byte-item memoryviews); catalogue sub-domain: every 1-cut and 2-cut and the "
    "byte-at-a-time segmentation of 26 short streams. non-trivial = at least 2 frames and at least one cut "
    "strictly inside a frame (header or payload). distinct = distinct canonical JSON of the case."
)
ASSUMPTIONS = [
    "one chunk = one data_received call; chunk boundaries may fall anywhere",
    "only well-formed streams (malformed preambles belong to C04)",
    "stub connection records process_packet calls; no event loop turn is involved",
]
EXHAUSTIVE_NOTE = "all 1-cut, 2-cut and byte-at-a-time segmentations of the 26 catalogue streams"
BUDGET = {
    "quick": {"examples": 1200, "shards": 4},
    "thorough": {"examples": 15000, "shards": 16, "fuzz": {"procs": 4, "runs": 40000}},
}
FLOORS = {"cut_inside_varint": 0.10, "multi_frame_chunk": 0.20, "non_bytes_chunk": 0.30, "payload_ge_16384": 0.02}


# ------------------------------------------------------------------ the check
def build_stream(frames):
    parts = []
    layout = []  # (start, header_end, end, varint_interior_offsets)
    off = 0
    for t, spec in frames:
        p = gen.payload_bytes(spec)
        enc = wire.enc_plain(t, p)
        hl = wire.header_len_plain(t, len(p))
        layout.append((off, off + hl, off + len(enc)))
        parts.append(enc)
        off += len(enc)
    return b"".join(parts), layout


def run_case(case: dict) -> CaseResult:
    frames = [(f[0], f[1]) for f in case["frames"]] * int(case.get("repeat", 1))
    stream, layout = build_stream(frames)
    total = len(stream)
    cuts = [c for c in case.get("cuts", []) if 0 <= c <= total]
    cuts = sorted(cuts)
    kinds = case.get("kinds") or [0]
    expected_all, rest = wire.parse_plain_stream(stream)
    assert rest == total and len(expected_all) == len(frames)

    gaps = case.get("gaps")  # seconds of (virtual) time passing after chunk i; None: no loop turn at all
    sim = fstub.sim_loop() if gaps else None
    try:
        return _run(case, frames, stream, layout, total, cuts, kinds, expected_all, gaps, sim)
    finally:
        if sim is not None:
            sim.dispose()


def _run(case, frames, stream, layout, total, cuts, kinds, expected_all, gaps, sim) -> CaseResult:
    h, conn, tr = fstub.make_plain(sim)
    res = CaseResult()
    fed = 0
    classes = set()
    if case.get("neighbour_closes"):
        # another plaintext connection of this process receives, in ONE chunk, a frame that makes its owner close it
        # followed by further complete frames: those are its own (lost with it), they never surface on this connection
        classes.add("neighbour_closed_mid_chunk")
        h2, conn2, _tr2 = fstub.make_plain(sim)
        orig = conn2.process_packet

        def pp(t, d, _orig=orig, _h2=h2):
            _orig(t, d)
            if t == 5:
                _h2.close()

        conn2.process_packet = pp
        h2.data_received(wire.enc_plain(26, b"\x0d\x09\x00\x00\x00") + wire.enc_plain(5, b"") + wire.enc_plain(25, b"\x0d\x02\x00\x00\x00") + wire.enc_plain(200, b"\x01" * 40))
    nb_chunks: list = []
    if case.get("neighbour_stream"):
        # another plaintext connection of this process is in the middle of large payloads of its own, its reads
        # interleaved with ours: two byte streams, two helpers, nothing shared
        classes.add("neighbour_mid_payload")
        h3, conn3, _tr3 = fstub.make_plain(sim)
        nb_frames = [(26, b"\x0d" + bytes([0x30 + j]) * 299) for j in range(3)]
        nb_stream = b"".join(wire.enc_plain(t, p) for t, p in nb_frames)
        step = max(1, int(case["neighbour_stream"]))
        nb_chunks = [nb_stream[j:j + step] for j in range(0, len(nb_stream), step)]
    bounds = {e for (_s, _h, e) in layout} | {0}
    inside = False
    for i, chunk in enumerate(wire.iter_cut(stream, cuts)):
        if nb_chunks:
            h3.data_received(nb_chunks.pop(0))
        kind = kinds[i % len(kinds)]
        for act in (case.get("flow") or {}).get(str(i), []):
            # the transport's write-side flow control has nothing to do with reading: frames are still handed over as
            # soon as their last byte has arrived
            classes.add("flow_control")
            (h.pause_writing if act == "pause" else h.resume_writing)()
        if kind % 6:
            classes.add("non_bytes_chunk")
        if len(chunk) == 0:
            classes.add("empty_chunk")
        try:
            obj, recycle = fstub.as_kind_recycled(chunk, kind)
            h.data_received(obj)
            recycle()  # the caller owns its receive buffer again: whatever the helper retains must be a copy
        except Exception as e:  # noqa: BLE001
            res.violations.append(
                Violation(ID, f"c01:data_received-raised:{type(e).__name__}", f"chunk {i} len {len(chunk)}: {e!r}")
            )
            break
        before = fed
        fed += len(chunk)
        exp = [(t, p) for (t, p, end) in expected_all if end <= fed]
        n_new = len(exp) - sum(1 for (_t, _p, end) in expected_all if end <= before)
        if n_new >= 2:
            classes.add("multi_frame_chunk")
        got = conn.packets
        if len(got) != len(exp) or any(g[0] != e[0] or bytes(g[1]) != e[1] for g, e in zip(got, exp)):
            res.violations.append(
                Violation(
                    ID,
                    "c01:delivery-mismatch",
                    f"after chunk {i} ({fed}/{total} bytes): delivered {len(got)} frames "
                    f"{[(g[0], len(g[1])) for g in got][:8]}, expected {len(exp)} {[(e[0], len(e[1])) for e in exp][:8]}",
                )
            )
            break
        for g in got:
            if type(g[1]) is not bytes:
                res.violations.append(Violation(ID, "c01:payload-not-bytes", f"{type(g[1])}"))
                break
        if conn.errors or tr.closed:
            res.violations.append(
                Violation(ID, "c01:error-on-wellformed-stream", f"errors={conn.errors!r} closed={tr.closed}")
            )
            break
        if gaps:
            # time passes before the next chunk: an incomplete trailing frame is retained however long that takes,
            # and loop turns deliver nothing more and nothing late
            g = float(gaps[i % len(gaps)])
            classes.add("time_between_chunks")
            if g >= 30:
                classes.add("gap_ge_30s")
            fstub.advance(sim, g)
            if len(conn.packets) != len(exp) or conn.errors or tr.closed:
                res.violations.append(Violation(ID, "c01:changed-while-waiting-for-more-bytes",
                                                f"after chunk {i} ({fed}/{total} bytes) and {g}s without new data: {len(conn.packets)} frames delivered (expected {len(exp)}), errors={conn.errors!r} closed={tr.closed}"))
                break
    if case.get("neighbour_stream") and not res.violations:
        while nb_chunks:
            h3.data_received(nb_chunks.pop(0))
        if [(t, bytes(p)) for t, p in conn3.packets] != nb_frames or conn3.errors:
            res.violations.append(Violation(ID, "c01:neighbour-stream-disturbed", f"the other connection's helper delivered {[(t, len(p)) for t, p in conn3.packets]} (errors {conn3.errors!r}), its stream held {[(t, len(p)) for t, p in nb_frames]}"))
    if len(frames) > 64:
        classes.add("frames_gt_64")
    for c in cuts:
        if 0 < c < total and c not in bounds:
            inside = True
            for s, he, _e in layout:
                # strictly inside a varint: inside the header but not right after the preamble byte's varints end
                if s < c < he:
                    classes.add("cut_inside_header")
                    # inside a multi-byte varint?
                    if _inside_varint(stream, s, he, c):
                        classes.add("cut_inside_varint")
    if any(len(gen.payload_bytes(sp)) >= 16384 for _t, sp in frames):
        classes.add("payload_ge_16384")
    if any(t >= 128 for t, _ in frames):
        classes.add("multibyte_type")
    res.nontrivial = len(frames) >= 2 and inside
    res.classes = sorted(classes)
    res.info = {"frames": len(frames), "bytes": total, "chunks": len(cuts) + 1}
    return res


def _inside_varint(stream: bytes, s: int, he: int, c: int) -> bool:
    # header = 0x00, varint(len), varint(type); c is inside a varint if the byte before c
    # has its continuation bit set and lies after the preamble
    return c - 1 > s and bool(stream[c - 1] & 0x80)


# ------------------------------------------------------------------ generators
@st.composite
def _case(draw, tier):
    n = draw(st.integers(0, 12 if tier == "thorough" else 8))
    frames = []
    big_budget = 2
    for _ in range(n):
        t = draw(gen.msg_type_ids())
        spec = draw(gen.payload_spec())
        if len(gen.payload_bytes(spec)) > 5000:
            if big_budget == 0:
                spec = {"h": spec["h"][:20]}
            big_budget -= 1
        frames.append([t, spec])
    stream, layout = build_stream([(f[0], f[1]) for f in frames])
    interesting = []
    for s, he, e in layout:
        interesting += list(range(s, he + 2)) + [e - 1, e, e + 1]
    cuts = draw(gen.cuts_for(len(stream), interesting))
    kinds = draw(gen.chunk_kinds())
    case = {"frames": frames, "cuts": cuts, "kinds": kinds}
    r = draw(st.integers(0, 9))
    if r == 4 and frames and len(stream) < 400:
        # a long burst: the same short frames many times over, few chunks
        case["repeat"] = draw(st.sampled_from([9, 33, 65, 70, 130, 300]))
        tot = len(stream) * case["repeat"]
        case["cuts"] = sorted(draw(st.lists(st.integers(0, tot), max_size=4)))
    elif r == 6:
        case["flow"] = {str(i): draw(st.lists(st.sampled_from(["pause", "resume"]), min_size=1, max_size=2)) for i in range(len(case["cuts"]) + 1) if draw(st.integers(0, 2)) == 0}
        if draw(st.booleans()):
            case["gaps"] = draw(st.lists(st.sampled_from([0, 0, 0.01, 1]), min_size=1, max_size=3))
    elif r == 7:
        case["neighbour_closes"] = True
        if draw(st.booleans()):
            case["neighbour_stream"] = draw(st.sampled_from([7, 50, 100, 301]))
    elif r == 5:
        case["gaps"] = draw(st.lists(st.sampled_from([0, 0.01, 1, 5, 9.5, 29, 31, 45, 100, 1000]), min_size=1, max_size=4))
    return case


def strategy(tier):
    return _case(tier)


CATALOGUE = [
    [[1, {"h": ""}]],
    [[1, {"h": ""}], [2, {"h": ""}]],
    [[7, {"h": ""}], [8, {"h": ""}], [7, {"h": ""}], [8, {"h": ""}]],
    [[2, {"h": "0801100a"}]],
    [[2, {"h": "0801100a"}], [4, {"h": ""}]],
    [[128, {"h": "00"}]],
    [[128, {"h": "00"}], [129, {"h": "0001"}]],
    [[16384, {"h": "80"}], [1, {"h": "01"}]],
    [[2**21, {"h": "ff"}], [0, {"h": ""}]],
    [[2**35, {"h": "0000"}], [2**28, {"h": "01"}]],
    [[26, {"h": "0d010000001001"}], [26, {"h": "0d02000000"}]],
    [[1, {"h": "", "pad": [0, 20]}], [5, {"h": ""}]],
    [[5, {"h": ""}], [26, {"h": "0d01000000"}]],
    [[1, {"h": "000000"}], [1, {"h": "000100"}]],
    [[1, {"h": "8080"}], [300, {"h": "80"}]],
    [[123, {"h": "0a0161"}], [124, {"h": ""}]],
    [[0, {"h": ""}], [0, {"h": "00"}], [0, {"h": ""}]],
    [[35, {"h": "", "pad": [1, 30]}]],
    [[65535, {"h": "01"}], [65536, {"h": "02"}]],
    [[1, {"h": "", "pad": [0x80, 12]}], [2, {"h": "", "pad": [0x80, 3]}]],
    [[127, {"h": "7f"}], [128, {"h": "80"}], [129, {"h": "81"}]],
    [[3, {"h": "0a03616263"}], [9, {"h": ""}], [11, {"h": ""}]],
    [[1, {"h": ""}], [1, {"h": "", "pad": [0, 33]}]],
    [[200, {"h": "", "pad": [0xFF, 9]}], [200, {"h": "", "pad": [0, 9]}]],
    [[1, {"h": "01"}], [1, {"h": "0101"}], [1, {"h": "010101"}], [1, {"h": "01010101"}]],
    [[16383, {"h": "00017f80"}], [16384, {"h": "8001"}]],
]


def enumerated(tier):
    # bursts: many complete frames in one chunk / two chunks
    for n in (63, 64, 65, 66, 128, 129, 200, 257, 1000):
        yield {"frames": [[7, {"h": ""}]], "repeat": n, "cuts": [], "kinds": [0]}
        yield {"frames": [[26, {"h": "0d01000000"}], [8, {"h": ""}]], "repeat": n, "cuts": [n * 5 + 3], "kinds": [1, 2]}
    # a stream whose chunks always end inside a frame, with (virtual) time passing in between
    fr = [[26, {"h": "0d010000001001"}], [25, {"h": "0d02000000", "pad": [0, 40]}]]
    st_, lay = build_stream([(f[0], f[1]) for f in fr] * 12)
    mids = [s + 2 for (s, _h, _e) in lay][1:]
    for g in ([1], [9], [29, 2], [31], [100], [0.01, 600]):
        yield {"frames": fr, "repeat": 12, "cuts": mids, "kinds": [0, 1], "gaps": g}
    yield {"frames": [[35, {"h": "", "pad": [1, 3000]}]], "cuts": list(range(100, 3000, 100)), "kinds": [0], "gaps": [2]}
    big3 = [[35, {"h": "", "pad": [0x41 + j, 400]}] for j in range(3)]
    for step in (50, 90):
        for nb in (50, 70, 130):
            yield {"frames": big3, "cuts": list(range(step, 1200, step)), "kinds": [0], "neighbour_stream": nb}
    four = [[26, {"h": "0d01000000"}], [7, {"h": ""}], [300, {"h": "0102"}], [25, {"h": "0d02000000"}]]
    for cuts in ([], [8], [3, 14]):
        yield {"frames": four, "cuts": cuts, "kinds": [0, 1], "neighbour_closes": True}
    for cuts in ([8], [8, 11], [3, 8, 14], [8, 9, 10, 11]):
        for flow in ({"0": ["pause"], "1": ["resume"]}, {"0": ["pause"], "2": ["resume"]}, {"1": ["pause", "resume"]}, {"0": ["pause"]}, {"0": ["pause"], "1": ["resume", "pause"], "2": ["resume"]}):
            yield {"frames": four, "cuts": cuts, "kinds": [0, 1], "flow": flow}
            yield {"frames": four, "cuts": cuts, "kinds": [0], "flow": flow, "gaps": [0]}
    for ci, frames in enumerate(CATALOGUE):
        stream, _ = build_stream([(f[0], f[1]) for f in frames])
        n = len(stream)
        k = ci
        yield {"frames": frames, "cuts": list(range(1, n)), "kinds": [ci % 4]}
        yield {"frames": frames, "cuts": list(range(0, n + 1)), "kinds": [0, 1, 2, 3]}
        for w in (2, 4):  # chunks of 2 / 4 bytes as views whose len() counts items
            yield {"frames": frames, "cuts": list(range(w, n, w)), "kinds": [4 if w == 2 else 5]}
            yield {"frames": frames, "cuts": list(range(w, n, 2 * w)), "kinds": [4 if w == 2 else 5, 0]}
        for a in range(0, n + 1):
            yield {"frames": frames, "cuts": [a], "kinds": [k % 4, (k + 1) % 4]}
            k += 1
        lim = n if (tier == "thorough" or n <= 24) else 24
        for a in range(0, lim + 1):
            for b in range(a, lim + 1):
                yield {"frames": frames, "cuts": [a, b], "kinds": [(a + b) % 4, a % 4, b % 4]}
