"""Common glue for the lifecycle properties (C05, C07, C08, C09)."""
from __future__ import annotations

from vf import life
from vf.runner import CaseResult, HarnessError


def run_with(prop_id: str, case: dict, extra_classes=None) -> CaseResult:
    obs = life.run(case)
    if obs.harness_error:
        raise HarnessError(f"{prop_id}: {obs.harness_error} in case {case}")
    res = CaseResult()
    res.violations = life.ORACLES[prop_id](obs)
    res.classes = sorted(classify(obs, case))
    res.info = {
        "iterations": obs.iterations,
        "ops": {k: (v[0] if v[0] == "ok" else type(v[1]).__name__) for k, v in obs.results.items()},
        "states": {str(c): [n for _, n in l] for c, l in life.state_log(obs).items()},
        "on_stop": [e["arg"] for e in obs.trace if e["kind"] == "on_stop"],
        "skipped_events": obs.skipped,
    }
    res._obs = obs  # type: ignore[attr-defined]
    return res


def classify(obs, case) -> set[str]:
    cl = set()
    sl = life.state_log(obs)
    closed = {c: next(((s, ) for s, n in l if n == "CLOSED"), None) for c, l in sl.items()}
    main_end = next((e["seq"] for e in obs.trace if e["kind"] == "op_end" and e["op"] == "main"), None)
    first_closed = min((x[0] for x in closed.values() if x), default=None)
    if first_closed is not None and main_end is not None and first_closed < main_end:
        cl.add("close_before_main_end")
    # a close and a phase completion in the same loop turn
    it_closed = {e["it"] for e in obs.trace if e["kind"] == "state" and e["value"].name == "CLOSED"}
    it_complete = {e["it"] for e in obs.trace if (e["kind"] == "deliver" and e["type"] in (2, 4)) or e["kind"] == "tcp_end"}
    it_complete |= {e["it"] + 1 for e in obs.trace if e["kind"] == "tcp_end"}
    if it_closed & it_complete:
        cl.add("close_same_turn_as_phase_completion")
    if any(n == "CONNECTED" for l in sl.values() for _, n in l):
        cl.add("reached_connected")
    causes = 0
    for e in obs.trace:
        if e["kind"] in ("eof", "reset", "data_received_raised", "user_call", "harness_cancel") or (
            e["kind"] == "deliver" and e["type"] == 5
        ):
            causes += 1
    if causes >= 2:
        cl.add("two_or_more_close_causes")
    if case.get("noise"):
        cl.add("noise")
    if any("it" in ev or "ite" in ev for ev in case.get("events") or []):
        cl.add("iteration_injection")
    if len(obs.skipped) == len(case.get("events") or []) and obs.skipped:
        cl.add("all_events_skipped")
    # a fault / close cause while at least one awaited operation is pending
    open_ops = 0
    for e in obs.trace:
        k = e["kind"]
        if k == "op_start":
            open_ops += 1
        elif k == "op_end":
            open_ops -= 1
        elif open_ops > 0 and (
            k in ("eof", "reset", "data_received_raised", "fault_armed", "harness_cancel")
            or (k == "deliver" and e["type"] == 5)
            or (k == "tcp_end" and e["outcome"] != "ok")
        ):
            cl.add("fault_while_op_pending")
    if obs.dead_writes:
        cl.add("dead_write")
    return cl
