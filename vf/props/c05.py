"""C05 – connection state only moves forward; closed is final; one connect per object.

Layer S.  Generator: lifecycle schedules (vf.life): a connect (one call or the two
phases separately) plus injected user calls / device chunks / faults at virtual
times or loop-iteration positions, incl. the hello answer carrying trailing frames
in the same chunk.  Oracle: monitor over every write to connection_state /
is_connected (harness subclass), per-turn consistency, the state at a normal phase
return, and a re-use probe of every used connection object.
"""
from __future__ import annotations

from vf import life
from vf.props._lifeprop import run_with

ID = "C05"
LEVEL = "exploration"
RULE = (
    "case = one APIClient connect on the simulated device (plaintext|noise, login on/off, one call|two phases, device "
    "answering|silent, hello answer with 0-2 trailing frames and optional cuts) + 0-4 injected events {disconnect(), "
    "force disconnect, cancel, EOF, reset, write failure (raising|fatal), silence, device chunk of 1-3 frames incl. "
    "DisconnectRequest/garbage/undecodable payload/bad MAC} each at a virtual time on a 1/256 s grid (biased to the "
    "connect/hello instants and the 5/10/30/60 s timeouts) or at the start/end of loop iteration k. Enumerated: every "
    "cause at every loop iteration (both positions) of 14 golden scenarios, and every closing trailer x cut of the "
    "hello answer. Oracle: rank(state) never decreases, nothing follows CLOSED, is_connected == (state is CONNECTED) at "
    "every write and every loop turn, a phase that returns normally is in its target state, a used connection object "
    "refuses both phases with RuntimeError and opens no socket, and a start_connection() overlapping the first one (state still INITIALIZED) does not return normally; once the transport has reported EOF or connection_lost(error) no state other than CLOSED is written. non-trivial = a CLOSED write precedes the end of the "
    "connecting task (a close took effect while connecting)."
)
ASSUMPTIONS = [
    "selector-transport callback protocol as modelled by vf/simnet.py (connection_made, reader start, waiter: one call_soon each)",
    "schedules at the granularity of asyncio callbacks on one thread; virtual clock",
]
EXHAUSTIVE_NOTE = "single-cause injection at every loop iteration (start and end position) of the golden scenarios; hello-trailer x cut table"
BUDGET = {"quick": {"examples": 600, "shards": 4}, "thorough": {"examples": 25000, "shards": 16}}
FLOORS = {"close_before_main_end": 0.2, "close_same_turn_as_phase_completion": 0.04, "iteration_injection": 0.3}


def run_case(case):
    res = run_with(ID, case)
    res.nontrivial = "close_before_main_end" in res.classes
    return res


def strategy(tier):
    # (here only: a re-use probe that falls into the start phase is made too -- the other properties' oracles are
    # about a connection used as documented)
    return life.case_strategy(tier).map(lambda c: {**c, "overlap_probe": True})


def enumerated(tier):
    scs = life.golden_scenarios()
    connect_only = [s for s in scs if s["flow"] == "connect" or s.get("split")]
    yield from life.single_fault_sweep(connect_only if tier == "quick" else scs)
    for c in life.single_fault_sweep(connect_only[:4] + connect_only[-2:], causes=[{"do": "reuse_start"}]):
        yield {**c, "overlap_probe": True}
    for sc in connect_only[:4]:
        for d in (["ok", ["10.1.0.1"], 8], ["ok", ["10.1.0.1"], 1]):
            for ev in ({"at": 2}, {"at": 6}, {"at": 10}, {"it": 2}, {"it": 3}, {"it": 4}):
                yield {**sc, "addresses": ["a.example.com"], "dns": {"a.example.com": d}, "overlap_probe": True, "events": [{"do": "reuse_start", **ev}]}
    # a malformed key: the attempt fails at its second phase -- the object is used up all the same
    for psk in ("AAAA", "not base64 at all", "QRTIErOb/fcE9Ukd/5qA3RGYMn0Y+p06U58SCtOXvPc", ""):
        for sc in ({"noise": True, "login": False, "flow": "connect", "K": 8.0, "events": [], "final_at": 100.0},
                   {"noise": True, "login": True, "flow": "connect", "K": 8.0, "split": 1, "gap": 1, "events": [], "final_at": 100.0},
                   {"noise": True, "login": True, "flow": "connect", "K": 8.0, "split": 1, "gap": 3, "events": [{"do": "chunk", "frames": ["garbage"], "it": 5}], "final_at": 100.0}):
            yield {**sc, "psk_text": psk}
    # a device that announces no name; its description, whenever somebody asks for it, comes with a closing frame behind it
    for noise in (False, True):
        for login in (False, True):
            for flow in ("connect", "full"):
                for extra in (["discreq"], ["garbage"], ["badstate"], ["state", "discreq"]):
                    for exp in (None, "dev"):
                        yield {"noise": noise, "login": login, "flow": flow, "K": 8.0, "events": [], "final_at": 100.0, "device_name": "", "devinfo_extra": extra, **({"expected_name": exp} if exp else {})}
    yield from life.slow_hello_disconnect_sweep()
    yield from life.hello_trailer_sweep()
    yield from life.sock_fault_sweep()
    yield from life.resolve_stage_sweep()
