"""C09 – operations end in bounded time with a classified error; first cause wins.

Layer S, vf.life engine, fault alphabet extended with OS-resolver error/empty/hang,
TCP connect error/hang over 1-3 addresses, silence at each protocol step and
wrong-order responses.  Oracles: (1) every awaited operation is finished at
quiescence and its virtual duration is within its documented bound; (2) whatever
it raises is an APIConnectionError (CancelledError only if the harness cancelled
that very task); (3) first cause wins – metamorphic: for an immediately effective
first fault f1 and any later faults f2, the outcome of every operation and the
stop-callback argument equal those of the run with f1 alone; and a graceful
disconnect() that is merely in progress when f1 lands does not change what the
other waiters observe (kind graceful_then_fatal).
"""
from __future__ import annotations

import copy

from hypothesis import strategies as st

from vf import life
from vf.props._lifeprop import classify, run_with
from vf.runner import CaseResult, HarnessError, Violation

ID = "C09"
LEVEL = "fault_enumeration"
RULE = (
    "fault enumeration + generated fault sequences: lifecycle schedules (see C05) with, in addition, 1-3 configured "
    "addresses (IP literals and FQDNs answered by a scripted OS resolver: results|empty|error|hang) and one scripted "
    "outcome per TCP attempt (ok|refused|unreachable|hang), a device that is silent from the start or from a given "
    "instant, and wrong-order/duplicate hello/connect answers. Operations: connect (or start+finish), device_info "
    "requests, disconnect(), force disconnect. Enumerated: every cause at every loop iteration of the golden scenarios "
    "(shared with C08), the resolver x TCP outcome matrix, and the first-cause table: f1 in {0x01 preamble, bad "
    "preamble, undecodable payload, bad MAC, EOF, DisconnectRequest} x stage in {hello pending, request pending, idle} x "
    "f2 in {trailing frames in the same chunk, EOF, reset, garbage, disconnect(), force} (same instant / later). "
    "non-trivial = a fault or close cause occurred while at least one awaited operation was pending."
)
ASSUMPTIONS = [
    "bounds: connect <= 30 s resolve + 60 s per resolved address + 30 s handshake + 30 s hello; request <= its timeout; disconnect <= 5 s + 10 s",
    "'never hangs' is decided as: finished at loop quiescence (or the 4000 s virtual horizon) and within the bound",
    "RuntimeError for calling a phase on a connection in the wrong state is documented misuse; generators avoid it",
    "mDNS names are exercised in C20; here only literals and names that go to the OS resolver",
]
EXHAUSTIVE_NOTE = "resolver x TCP outcome matrix for <=2 addresses; first-cause table; single-cause sweep over connect-only golden scenarios"
BUDGET = {"quick": {"examples": 500, "shards": 6}, "thorough": {"examples": 15000, "shards": 16}}
FLOORS = {"fault_while_op_pending": 0.25}

# faults that close the connection inside the very data_received/eof_received call.  A frame that
# fails authentication is NOT in this list: its InvalidTag leaves data_received as an exception and
# only takes effect with connection_lost one turn later, so a user call in between legitimately wins.
IMMEDIATE_F1 = [["reqenc"], ["garbage"], ["badproto"], ["discreq"]]
# plaintext only: the bad indicator byte alone (a fragment shorter than a frame header; the rest never arrives) is
# already the protocol violation -- the indicator is the first byte of a frame whatever follows
PLAIN_FRAGMENT_F1 = [["reqenc:1"], ["garbage:1"], ["reqenc:2"], ["garbage:2"]]


def _outcomes(obs) -> dict:
    out = {}
    for name, r in obs.results.items():
        out[name] = "ok" if r[0] == "ok" else type(r[1]).__name__
    out["__on_stop__"] = [e["arg"] for e in obs.trace if e["kind"] == "on_stop"]
    return out


def run_graceful_then_fatal(case):
    """A graceful disconnect that is merely *in progress* (request sent, not yet answered) is not a fatal
    cause: the first FATAL cause that follows must still reach every other waiter unchanged.
    Metamorphic: outcomes of all operations other than the disconnect call itself are equal in
    base+[f1] and base+[disconnect() at the same instant just before f1, f1]."""
    base = case["base"]
    f1 = case["f1"]
    pre = {"do": case.get("pre", "disconnect"), "at": f1["at"]}
    one = {**copy.deepcopy(base), "events": list(base.get("events") or []) + [f1]}
    two = {**copy.deepcopy(base), "events": list(base.get("events") or []) + [pre, f1]}
    o1 = life.run(one)
    o2 = life.run(two)
    for o in (o1, o2):
        if o.harness_error:
            raise HarnessError(f"C09: {o.harness_error} in {case}")
    res = CaseResult()
    res.violations = life.oracle_c09(o1) + life.oracle_c09(o2)
    a, b = _outcomes(o1), _outcomes(o2)
    n0 = len(base.get("events") or [])
    res.info = {"f1_alone": a, "with_disconnect_in_progress": b}
    if any(s.startswith(f"{n0}:") for s in o1.skipped) or any(s.startswith(f"{n0 + 1}:") for s in o2.skipped):
        res.classes = ["graceful_then_fatal", "f1_skipped"]
        return res
    # the disconnect must really be in progress when f1 lands: no CLOSED before f1's delivery in run two
    for k in a:
        if k == "__on_stop__" or k.startswith(("disconnect", "force", "final")):
            continue
        if k in b and a[k] != b[k] and a[k] != "ok":
            res.violations.append(Violation(
                ID, f"c09:first-cause-masked-by-pending-disconnect:{'+'.join(f1.get('frames', [f1['do']]))}:{k}:{a[k]}->{b[k]}",
                f"stage={case.get('stage')}: fatal fault alone gives {k} -> {a[k]}; with a disconnect() merely in progress -> {b[k]}"))
    res.classes = sorted(classify(o2, two) | {"graceful_then_fatal"})
    res.nontrivial = "fault_while_op_pending" in res.classes
    return res


def run_verdict_then_close(case):
    """The device's answer carries a rejecting verdict (invalid password / wrong name / incompatible version) and is
    followed, in the same chunk or turn, by something that closes the connection.  The verdict is the first cause:
    connect() must fail exactly as it does without the trailing close."""
    base = case["base"]
    one = {**copy.deepcopy(base), "events": []}
    two = {**copy.deepcopy(base), "events": list(case.get("after") or [])}
    if case.get("trailer"):
        two["hello_extra"] = list(case["trailer"])
    if case.get("then"):
        two["hello_then"] = case["then"]
    o1, o2 = life.run(one), life.run(two)
    for o in (o1, o2):
        if o.harness_error:
            raise HarnessError(f"C09: {o.harness_error} in {case}")
    res = CaseResult()
    res.violations = life.oracle_c09(o1) + life.oracle_c09(o2)
    a, b = _outcomes(o1), _outcomes(o2)
    res.info = {"verdict_alone": a, "verdict_then_close": b}
    if a.get("main") in (None, "ok"):
        raise HarnessError(f"C09 verdict_then_close: base case does not reject: {a}")
    if b.get("main") != a.get("main"):
        res.violations.append(Violation(ID, f"c09:first-cause-masked:verdict:{a.get('main')}->{b.get('main')}", f"{case.get('what')}: alone connect() raises {a.get('main')}; with {case.get('trailer') or ''} {case.get('then') or ''} right behind it raises {b.get('main')}"))
    res.classes = sorted(classify(o2, two) | {"verdict_then_close"})
    res.nontrivial = True
    return res


def run_ble(case):
    """Bluetooth proxy calls under every device answer C16 generates (wrong-order, foreign, empty, none): whatever
    the outcome is, it is a result or an error of the library's hierarchy -- never a raw exception, never a hang."""
    from aioesphomeapi import core

    from vf.props import c16

    fam = {n for n, c in vars(core).items() if isinstance(c, type) and issubclass(c, core.APIConnectionError)}
    r = c16.run_case(case["ble"])
    res = CaseResult(nontrivial=True, classes=["ble_calls"], info=r.info)
    import re

    for v in r.violations:
        sig = v.signature
        m = re.search(r"(?:timeout|ended|finished)? ?at ([0-9.]+), expected at ([0-9.]+)", v.detail) if "completion-time" in sig else None
        if m and float(m.group(1)) > float(m.group(2)) + 1e-6:
            # the call overran its documented bound (connect timeout + disconnect timeout)
            res.violations.append(Violation(ID, "c09:ble:too-slow", v.detail[:300]))
            continue
        if ":raised:" in sig or "never-finished" in sig:
            name = sig.split(":raised:")[-1].split("-")[0] if ":raised:" in sig else ""
            if name in fam:
                continue
            res.violations.append(Violation(ID, "c09:ble:" + ("raw-exception:" + name if name else "hang"), v.detail[:300]))
    return res


def run_fatal_with_hello(case):
    """The device's (acceptable) hello answer and fatal bytes arrive in ONE chunk: the connect call ends with the class
    of that fatal cause -- the same class as when the fatal bytes arrive instead of the hello answer."""
    base = case["base"]
    frames = list(case["frames"])
    a = life.run({**copy.deepcopy(base), "hello_extra": frames + list(case.get("more") or []), **({"hello_cuts": case["cuts"]} if case.get("cuts") else {}), "events": []})
    b = life.run({**copy.deepcopy(base), "hello_extra": frames, "hello_replace": True, "events": []})
    for o in (a, b):
        if o.harness_error:
            raise HarnessError(f"C09: {o.harness_error} in {case}")
    res = CaseResult(nontrivial=True, classes=["fatal_bytes_in_the_hello_chunk"])
    res.violations = life.oracle_c09(a) + life.oracle_c09(b)
    oa, ob = _outcomes(a), _outcomes(b)
    res.info = {"same_chunk": oa, "alone": ob}
    if ob.get("main") in (None, "ok"):
        raise HarnessError(f"C09: fatal frames {frames} alone did not fail the connect: {ob}")
    if oa.get("main") != ob.get("main"):
        res.violations.append(Violation(ID, f"c09:first-cause-masked:{'+'.join(frames)}-in-the-hello-chunk:main:{ob.get('main')}->{oa.get('main')}",
                                        f"{frames} arriving instead of the hello answer ends connect with {ob.get('main')}; arriving in the same chunk as the hello answer it ends with {oa.get('main')}"))
    return res


def _fatal_with_hello_cases():
    for noise in (False, True):
        for login in (False, True):
            for flow in ("connect", "full"):
                for fr in (["reqenc"], ["garbage"], ["badproto"]):
                    for more in ([], ["state"], ["discreq"], ["garbage"]):
                        for cuts in (None, [3]):
                            yield {"kind": "fatal_with_hello", "base": {"noise": noise, "login": login, "flow": flow, "K": 8.0, "final_at": 200.0}, "frames": fr, "more": more, **({"cuts": cuts} if cuts else {})}


def run_stale_handle(case):
    """Handles handed out on an earlier session (the awaitable stop_notify / the synchronous remover of a GATT notify
    subscription) used while the client's NEXT connection is still in its handshake: a result or a library error."""
    import asyncio
    import base64

    from aioesphomeapi import api_pb2 as pb
    from aioesphomeapi.core import APIConnectionError

    from vf import wire
    from vf.simloop import START, IterationCap
    from vf.simnet import Env, make_client

    res = CaseResult(nontrivial=True, classes=["handles_of_an_earlier_session_used_during_the_next_handshake"])
    noise = bool(case.get("noise", True))
    env = Env(noise_key=life.KEY if noise else None)
    dev = env.dev
    idof = wire.ids()[1]
    A = 0xAABBCCDDEEFF
    dev.handlers[idof[pb.BluetoothGATTNotifyRequest]] = lambda s_, _p: s_.send(pb.BluetoothGATTNotifyResponse(address=A, handle=1))
    cli = make_client(env, noise_psk=base64.b64encode(life.KEY).decode() if noise else None)
    out: dict = {}

    async def main():
        await cli.connect(login=True)
        stop, remove = await cli.bluetooth_gatt_start_notify(A, 1, lambda *_a: None, timeout=2.0)
        how = case.get("lost", "reset")
        tr = dev.session.transport
        tr.reset() if how == "reset" else tr.feed_eof()
        await asyncio.sleep(0.25)
        if case.get("stage") == "handshake":
            dev.noise_mute = True      # the next connection's handshake is never answered
        else:
            dev.auto = set()           # ... or its hello is not
        env.spawn("reconn", cli.connect(login=True))
        await asyncio.sleep(float(case.get("after", 0.5)))
        for name, fn in (("stop_notify", stop), ("remove", remove)):
            try:
                r = fn()
                if hasattr(r, "__await__"):
                    await asyncio.wait_for(r, 30)
                out[name] = "ok"
            except APIConnectionError as e:
                out[name] = "api:" + type(e).__name__
            except asyncio.TimeoutError:
                out[name] = "hang"
            except Exception as e:  # noqa: BLE001
                out[name] = "raw:" + type(e).__name__
        await cli.disconnect(force=True)

    env.loop.sim_at(0, lambda: env.spawn("main", main()))
    env.loop.horizon = START + 300
    try:
        env.run()
    except IterationCap as e:
        env.close()
        raise HarnessError(f"C09 stale handle: {e}") from e
    r = env.results.get("main")
    if r is None or r[0] != "ok":
        env.close()
        raise HarnessError(f"C09 stale handle: scenario failed: {r}")
    for name, o in out.items():
        if o.startswith("raw:") or o == "hang":
            res.violations.append(Violation(ID, f"c09:stale-handle:{name}:{o}", f"{name}() of the lost session, called while the next connection is at the {case.get('stage')} stage: {o}"))
    res.info = out
    env.close()
    return res


def run_case(case):
    if case.get("kind") == "ble":
        return run_ble(case)
    if case.get("kind") == "stale_handle":
        return run_stale_handle(case)
    if case.get("kind") == "fatal_with_hello":
        return run_fatal_with_hello(case)
    if case.get("kind") == "graceful_then_fatal":
        return run_graceful_then_fatal(case)
    if case.get("kind") == "verdict_then_close":
        return run_verdict_then_close(case)
    if case.get("kind") != "first_cause":
        res = run_with(ID, case)
        res.nontrivial = "fault_while_op_pending" in res.classes
        return res
    base = case["base"]
    f1 = case["f1"]
    one = {**copy.deepcopy(base), "events": list(base.get("events") or []) + [f1]}
    f1b = dict(f1)
    if case.get("f2_trailer") and f1.get("do") == "chunk":
        f1b = {**f1, "frames": list(f1["frames"]) + list(case["f2_trailer"])}
    two = {**copy.deepcopy(base), "events": list(base.get("events") or []) + [f1b] + list(case.get("f2") or [])}
    o1 = life.run(one)
    o2 = life.run(two)
    for o in (o1, o2):
        if o.harness_error:
            raise HarnessError(f"C09: {o.harness_error} in {case}")
    res = CaseResult()
    res.violations = life.oracle_c09(o1) + life.oracle_c09(o2)
    a, b = _outcomes(o1), _outcomes(o2)
    f1_idx = len(base.get("events") or [])
    if any(s.startswith(f"{f1_idx}:") for s in o1.skipped) or any(s.startswith(f"{f1_idx}:") for s in o2.skipped):
        # f1 could not be delivered (no transport yet / already closed): the pair says nothing
        res.classes = ["first_cause_pair", "f1_skipped"]
        res.info = {"f1_alone": a, "with_f2": b}
        return res
    if case.get("expect_main") and a.get("main") != case["expect_main"]:
        # the first cause is known here: the only failure of run one is the one f1 produces itself
        res.violations.append(Violation(ID, f"c09:first-cause-masked:{f1['do']}:main:{case['expect_main']}->{a.get('main')}",
                                        f"stage={case.get('stage')}: {f1} alone must end the connect call with {case['expect_main']}, it ended with {a.get('main')}"))
    for k in a:
        if k in b and a[k] != b[k]:
            stage = case.get("stage", "?")
            res.violations.append(
                Violation(
                    ID,
                    f"c09:first-cause-masked:{'+'.join(f1.get('frames', [f1['do']]))}:{k if k != '__on_stop__' else 'on_stop'}:{a[k]}->{b[k]}",
                    f"stage={stage}: with the first fault alone {k} -> {a[k]}; with later faults added -> {b[k]}",
                )
            )
    res.classes = sorted(classify(o2, two) | {"first_cause_pair"})
    res.nontrivial = "fault_while_op_pending" in res.classes
    res.info = {"f1_alone": a, "with_f2": b}
    return res


# ------------------------------------------------------------------ generators
HOSTS = ["10.0.0.1", "10.0.0.7", "fd00::1", "a.example.com", "b.example.com"]


@st.composite
def _net_case(draw, tier):
    c = draw(life.case_strategy(tier, max_events=2))
    n = draw(st.integers(1, 3))
    addrs = draw(st.lists(st.sampled_from(HOSTS), min_size=n, max_size=n, unique=True))
    c["addresses"] = addrs
    dns = {}
    for a in addrs:
        if a.endswith(".com"):
            dns[a] = draw(
                st.sampled_from(
                    [["ok", ["10.1.0.1"], 2], ["ok", ["10.1.0.1", "fd00::9"], 1], ["ok", ["10.1.0.1", "10.1.0.2", "10.1.0.3"], 1],
                     ["empty", 1], ["error", 1], ["error", 300], ["hang"], ["ok", ["10.1.0.4"], 64 * 29], ["ok", ["10.1.0.4"], 64 * 31]]
                )
            )
    if dns:
        c["dns"] = dns
    c.pop("tcp", None)
    c["tcp_script"] = draw(
        st.lists(
            st.sampled_from([["ok", 4], ["ok", 1], ["refuse", 4], ["refuse", 64 * 20], ["oserror", 2], ["hang"], ["ok", 64 * 59], ["ok", 64 * 61]]),
            min_size=1,
            max_size=3,
        )
    )
    return c


@st.composite
def _silence_case(draw, tier):
    c = draw(life.case_strategy(tier, max_events=2))
    c["tcp"] = "ok"
    m = draw(st.integers(0, 2))
    if m == 0:
        c["auto"] = False
        # wrong-order / partial answers fed by hand
        frames = draw(st.lists(st.sampled_from(["connresp", "hello", "hello", "pong", "state", "devinfo", "discresp"]), min_size=1, max_size=3))
        c["events"].append({"do": "chunk", "frames": frames, "at": draw(st.integers(17, 40))})
    else:
        c["events"].append({"do": "silence", "at": draw(st.one_of(st.integers(0, 40), st.integers(0, 256 * 40)))})
    return c


def _first_cause_cases(tier):
    for noise in (False, True):
        for f1f in IMMEDIATE_F1 + [["eof"]] + ([] if noise else PLAIN_FRAGMENT_F1):
            if f1f == ["badmac"] and not noise:
                continue
            for stage, t1, base in (
                ("hello-pending", 18 if not noise else 22, {"auto": True, "latency": 8}),
                ("request-pending", 80, {"latency": 64}),
                ("idle", 500, {}),
            ):
                b = {"noise": noise, "login": True, "flow": "full", "K": 8.0, "final_at": 200.0, **base}
                f1 = {"do": "eof", "at": t1} if f1f == ["eof"] else {"do": "chunk", "frames": f1f, "at": t1}
                f2s = [
                    {"f2": [{"do": "eof", "at": t1}]},
                    {"f2": [{"do": "reset", "at": t1}]},
                    {"f2": [{"do": "chunk", "frames": ["garbage"], "at": t1}]},
                    {"f2": [{"do": "chunk", "frames": ["reqenc"], "at": t1 + 1}]},
                    {"f2": [{"do": "disconnect", "at": t1}]},
                    {"f2": [{"do": "force", "at": t1}]},
                    {"f2": [{"do": "disconnect", "at": t1 + 1}, {"do": "eof", "at": t1 + 1}]},
                ]
                if f1f != ["eof"] and f1f not in PLAIN_FRAGMENT_F1:
                    f2s += [{"f2_trailer": tr} for tr in (["garbage"], ["reqenc"], ["discreq"], ["badproto"], ["state"], ["state", "garbage"])]
                for extra in f2s:
                    yield {"kind": "first_cause", "stage": stage, "base": b, "f1": f1, **extra}
                if stage != "idle":
                    yield {"kind": "graceful_then_fatal", "stage": stage, "base": b, "f1": f1}
            for stage, t1, base in (("hello-pending", 18 if not noise else 22, {"auto": True, "latency": 8}), ("request-pending", 80, {"latency": 64})):
                b = {"noise": noise, "login": True, "flow": "full", "K": 8.0, "final_at": 200.0, **base}
                yield {"kind": "graceful_then_fatal", "stage": stage, "base": b, "f1": {"do": "reset", "at": t1}}


def _disconnect_during_hung_connect_cases():
    """disconnect() while the connect is hung (device silent): after its 5 s wait the disconnect records the first
    fatal cause itself (a timeout) and goes on to the DisconnectRequest exchange (<= 10 s); whatever fails in
    that window comes second."""
    for noise in (False, True, "mute"):
        for login in (True, False):
            b = {"noise": bool(noise), "login": login, "flow": "connect", "auto": False, "K": 8.0, "final_at": 200.0}
            if noise == "mute":
                b["noise_mute"] = True  # not even the Noise handshake is answered
            for d in (5.25, 7, 12, 14.9):
                for x in ({"do": "eof"}, {"do": "reset"}, {"do": "chunk", "frames": ["garbage"]}, {"do": "writefail_raise"}, {"do": "force"}):
                    yield {"kind": "first_cause", "stage": "disconnect-during-hung-connect", "base": b, "f1": {"do": "disconnect", "at": 300}, "f2": [{**x, "at": 300 + int(256 * d)}],
                           "expect_main": "TimeoutAPIError"}


@st.composite
def _first_cause_random(draw, tier):
    noise = draw(st.booleans())
    f1f = draw(st.sampled_from([f for f in IMMEDIATE_F1 if noise or f != ["badmac"]] + [["eof"]] + ([] if noise else PLAIN_FRAGMENT_F1)))
    t1 = draw(st.one_of(st.integers(16, 40), st.integers(40, 600), st.sampled_from([2048 + 32, 2048 + 36, 2048 + 40])))
    base = {
        "noise": noise,
        "login": draw(st.booleans()),
        "flow": draw(st.sampled_from(["connect", "full", "full+disconnect"])),
        "K": 8.0,
        "final_at": 200.0,
        "latency": draw(st.sampled_from([1, 4, 8, 64])),
    }
    f1 = {"do": "eof", "at": t1} if f1f == ["eof"] else {"do": "chunk", "frames": f1f, "at": t1}
    case = {"kind": "first_cause", "stage": "random", "base": base, "f1": f1}
    if f1f != ["eof"] and f1f not in PLAIN_FRAGMENT_F1 and draw(st.booleans()):
        case["f2_trailer"] = draw(st.lists(st.sampled_from(["garbage", "reqenc", "discreq", "badproto", "state", "ping", "unknown"]), min_size=1, max_size=2))
    f2 = []
    for _ in range(draw(st.integers(0, 2))):
        act = draw(
            st.sampled_from(
                [{"do": "eof"}, {"do": "reset"}, {"do": "reset_etimedout"}, {"do": "lost_raw"}, {"do": "disconnect"}, {"do": "force"}, {"do": "writefail_raise"}, {"do": "writefail_raise_rt"},
                 {"do": "chunk", "frames": ["garbage"]}, {"do": "chunk", "frames": ["reqenc"]}, {"do": "chunk", "frames": ["discreq"]}]
            )
        )
        f2.append({**act, "at": t1 + draw(st.sampled_from([0, 0, 1, 4, 64]))})
    case["f2"] = f2
    return case


@st.composite
def _graceful_then_fatal_random(draw, tier):
    c = draw(_first_cause_random(tier))
    f1 = c["f1"]
    if draw(st.integers(0, 3)) == 0:
        f1 = {"do": "reset", "at": f1["at"]}
    return {"kind": "graceful_then_fatal", "stage": "random", "base": c["base"], "f1": f1}


@st.composite
def _reconnect_in_stop_callback(draw, tier):
    """Established session ended by any cause; the stop callback reconnects at once (once or twice)."""
    c = draw(life.case_strategy(tier, max_events=3, min_events=1))
    c["tcp"] = "ok"
    c["auto"] = True
    c["on_stop_reconnect"] = draw(st.sampled_from([1, 1, 2]))
    for ev in c["events"]:
        if "at" in ev and ev["at"] < 40:
            ev["at"] += draw(st.sampled_from([40, 400]))
    return c


def _ble(tier):
    from vf.props import c16

    return c16.strategy(tier).map(lambda c: {"kind": "ble", "ble": c})


def strategy(tier):
    return st.one_of(_ble(tier), life.case_strategy(tier), _net_case(tier), _silence_case(tier), _first_cause_random(tier), _graceful_then_fatal_random(tier),
                     _reconnect_in_stop_callback(tier))


def _verdict_cases():
    for noise in (False, True):
        for what, cfg in (("invalid-password", {"invalid_password": True, "login": True, "password": "pw"}), ("wrong-name", {"expected_name": "kitchen", "login": True}),
                          ("wrong-name-no-login", {"expected_name": "kitchen", "login": False}), ("incompatible-version", {"api_major": 3, "login": True}),
                          ("incompatible-version-no-login", {"api_major": 4, "login": False})):
            base = {"noise": noise, "flow": "connect", "K": 8.0, "final_at": 200.0, **cfg}
            for trailer in (["discreq"], ["garbage"], ["badproto"], ["state", "discreq"], ["ping", "garbage"]):
                yield {"kind": "verdict_then_close", "what": what, "base": base, "trailer": trailer}
                yield {"kind": "verdict_then_close", "what": what, "base": {**base, "hello_cuts": [7]}, "trailer": trailer}
            # EOF / reset delivered right behind the answer, in the same loop turn
            for then in ("eof", "reset"):
                yield {"kind": "verdict_then_close", "what": what, "base": base, "then": then}
                yield {"kind": "verdict_then_close", "what": what, "base": base, "then": then, "trailer": ["state"]}


def _reconnect_cases():
    for noise in (False, True):
        for flow in ("connect", "full"):
            for ev in ({"do": "disconnect"}, {"do": "force"}, {"do": "eof"}, {"do": "reset"}, {"do": "chunk", "frames": ["discreq"]}, {"do": "chunk", "frames": ["garbage"]}, {"do": "silence"}):
                for at in (64, 400):
                    for n in (1, 2):
                        yield {"noise": noise, "login": True, "flow": flow, "K": 8.0, "final_at": 300.0, "on_stop_reconnect": n, "events": [{**ev, "at": at}]}


def _stream_cases():
    """A multi-message request on an established session whose final message never comes while the device keeps
    sending its intermediate messages (every 1-9 s, for 100 s): the call still ends at its 60 s timeout."""
    for noise in (False, True):
        for every in (1.0, 2.0, 9.0):
            yield {"noise": noise, "login": True, "flow": "connect", "K": 32.0, "final_at": 160.0, "events": [{"do": "stream_list", "at": 64, "every": every, "n": int(100 / every)}]}


def _big_request_cases():
    """An awaited request with a payload around and beyond what one Noise frame can carry (64 KiB), then an ordinary one."""
    for noise in (False, True):
        for size in (60000, 65490, 65500, 65510, 65515, 65520, 65525, 65530, 65535, 65536, 70000, 131100, 300000):
            yield {"noise": noise, "login": True, "flow": "full", "K": 8.0, "final_at": 200.0,
                   "events": [{"do": "big_request", "size": size, "at": 300}, {"do": "big_request", "size": 10, "at": 1300}]}


def _ble_cases():
    A = 0xAABBCCDDEEFF
    for kind in ("services", "read", "read_desc", "write", "pair", "unpair", "clear", "notify"):
        o = {"id": "op0", "kind": kind, "addr": A, "handle": 1, "t": 2, "timeout": 2, "response": True, "end": "stop"}
        for msgs in ([{"k": "svcdone", "addr": A}], [{"k": "conn", "addr": A, "connected": True, "mtu": 23, "error": 0}], [{"k": "conn", "addr": A, "connected": False, "mtu": 0, "error": 8}],
                     [{"k": "gatterr", "addr": A, "handle": 1, "error": 133}], [{"k": "svc", "addr": A, "h": 3}, {"k": "svcdone", "addr": A}]):
            yield {"kind": "ble", "ble": {"noise": False, "ops": [o], "chunks": [{"t": 21, "msgs": msgs}]}}


def _ble_connect_silent_cases():
    """The proxy answers neither the connect request nor the clean-up disconnect: the call ends after connect timeout +
    disconnect timeout, whichever of the two is the larger."""
    A = 0xAABBCCDDEEFF
    for fl in ("v1", "v3cache", "v3nocache"):
        for tmo, dt in ((1, 2), (2, 1), (3, 1), (2, 2), (1, 0)):
            yield {"kind": "ble", "ble": {"noise": False, "chunks": [],
                                          "ops": [{"id": "op0", "kind": "connect", "addr": A, "t": 2, "timeout": tmo, "dtimeout": dt, "flavour": fl, "address_type": 1 if fl == "v1" else None}]}}


def enumerated(tier):
    for noise in (True, False):
        for stage in ("handshake", "hello"):
            for lost in ("reset", "eof"):
                for after in (0.05, 0.5, 3.0):
                    yield {"kind": "stale_handle", "noise": noise, "stage": stage, "lost": lost, "after": after}
    yield from _ble_cases()
    yield from _ble_connect_silent_cases()
    yield from _stream_cases()
    yield from _big_request_cases()
    yield from _reconnect_cases()
    yield from _first_cause_cases(tier)
    yield from _fatal_with_hello_cases()
    yield from _disconnect_during_hung_connect_cases()
    yield from _verdict_cases()
    # resolver x TCP matrix for one and two addresses
    dns_opts = [["ok", ["10.1.0.1"], 2], ["ok", ["10.1.0.1", "fd00::9"], 1], ["empty", 1], ["error", 1], ["hang"]]
    tcp_opts = [["ok", 4], ["refuse", 4], ["oserror", 2], ["hang"]]
    for noise in (False, True):
        base = {"noise": noise, "login": True, "flow": "full+disconnect", "K": 8.0, "final_at": 200.0, "events": []}
        for d in dns_opts:
            for t1 in tcp_opts:
                for t2 in tcp_opts:
                    yield {**base, "addresses": ["a.example.com"], "dns": {"a.example.com": d}, "tcp_script": [t1, t2]}
                    yield {**base, "addresses": ["a.example.com", "10.0.0.7"], "dns": {"a.example.com": d}, "tcp_script": [t1, t2]}
        for d1 in dns_opts:
            for d2 in dns_opts:
                yield {**base, "addresses": ["a.example.com", "b.example.com"], "dns": {"a.example.com": d1, "b.example.com": d2}, "tcp_script": [["refuse", 2], ["ok", 2]]}
    # faults of the start phase that are neither OSError nor a library error: a malformed host name refused by the idna
    # codec, a loop whose sock_connect raises RuntimeError
    for noise in (False, True):
        base = {"noise": noise, "login": True, "flow": "connect", "K": 8.0, "final_at": 100.0, "events": []}
        for host in ("bad..host", "x" * 70 + ".example.com"):
            yield {**base, "addresses": [host], "dns": {host: ["unicode_error"]}}
            yield {**base, "addresses": ["10.0.0.7", host], "dns": {host: ["unicode_error"]}}
        yield {**base, "tcp_script": [["rt", 2]]}
        yield {**base, "addresses": ["10.0.0.7", "10.0.0.8"], "tcp_script": [["rt", 2], ["ok", 2]]}
    scs = [s for s in life.golden_scenarios() if s["flow"] != "full" or tier == "thorough"]
    yield from life.single_fault_sweep(scs)
    yield from life.sock_fault_sweep()
    yield from life.resolve_stage_sweep()
