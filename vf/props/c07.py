"""C07 – stop callback exactly once per established session, with the right reason.

Layer S, vf.life engine.  Oracle from the trace: on_stop count == 1 iff the state
log contains CONNECTED (else 0); argument == (a graceful disconnect - disconnect(),
force disconnect, or a DisconnectRequest delivered to an established session - was
initiated before the CLOSED write), "before" = position in the global trace.
"""
from __future__ import annotations

from hypothesis import strategies as st

from vf import life
from vf.props._lifeprop import run_with

ID = "C07"
LEVEL = "exploration"
RULE = (
    "case = lifecycle schedule (see C05) with up to 4 close causes in any order/multiplicity: DisconnectRequest (alone, "
    "repeated, followed by other frames), disconnect(), force disconnect, EOF, reset, write failure on the next write "
    "(incl. on the DisconnectResponse), ping timeout (device silent), garbage / undecodable payload / bad MAC; at "
    "every lifecycle stage. Enumerated: all ordered pairs of 9 causes at the same instant and one tick apart on an "
    "established session, both framings. Oracle: on_stop called exactly once iff CONNECTED was reached; argument "
    "true iff a graceful initiation precedes the CLOSED write in the trace. non-trivial = session reached CONNECTED "
    "and >= 2 close causes occurred."
)
ASSUMPTIONS = [
    "a DisconnectRequest counts as a device-initiated disconnect once delivered in state HANDSHAKE_COMPLETE/CONNECTED "
    "(a frame pushed before the client's hello was sent is not a protocol request)",
    "a disconnect() issued while the client holds no connection is a no-op and counts for nothing",
]
EXHAUSTIVE_NOTE = "ordered pairs of 9 close causes x {same instant, 1 tick apart, 1 latency apart} x {plaintext, noise}"
BUDGET = {"quick": {"examples": 700, "shards": 4}, "thorough": {"examples": 25000, "shards": 16}}
FLOORS = {"two_or_more_close_causes": 0.05, "reached_connected": 0.4}

PAIR_CAUSES = [
    {"do": "disconnect"}, {"do": "force"}, {"do": "eof"}, {"do": "reset"},
    {"do": "chunk", "frames": ["discreq"]}, {"do": "chunk", "frames": ["garbage"]}, {"do": "chunk", "frames": ["badproto"]},
    {"do": "writefail_raise"}, {"do": "writefail_fatal"},
]


def run_case(case):
    res = run_with(ID, case)
    res.nontrivial = "reached_connected" in res.classes and "two_or_more_close_causes" in res.classes
    return res


@st.composite
def _biased(draw, tier):
    c = draw(life.case_strategy(tier, max_events=4))
    # make sure most sessions get established before causes pile up
    if draw(st.integers(0, 2)) > 0:
        c["tcp"] = "ok"
        c["auto"] = True
        for ev in c["events"]:
            if "at" in ev and ev["at"] < 30 and draw(st.booleans()):
                ev["at"] += 30
    if draw(st.integers(0, 3)) == 0:
        # a ping / request right after an armed write failure, so that the write error is the cause
        c["events"].append({"do": "chunk", "frames": ["ping"], "at": draw(st.integers(30, 300))})
    return c


@st.composite
def _multi_cause(draw, tier):
    """Established session, then 2-4 close causes inside a small window (same turn .. a few ticks apart);
    a slow device keeps a graceful disconnect() pending while the other causes arrive."""
    c = {
        "noise": draw(st.booleans()),
        "login": draw(st.booleans()),
        "flow": draw(st.sampled_from(["connect", "full"])),
        "K": 8.0,
        "final_at": 200.0,
        "latency": draw(st.sampled_from([1, 1, 8, 64])),
    }
    t0 = draw(st.sampled_from([200, 300, 2300, 2600]))
    n = draw(st.integers(2, 4))
    evs = []
    for _ in range(n):
        cause = draw(st.sampled_from(PAIR_CAUSES + [{"do": "silence"}, {"do": "cancel"}, {"do": "chunk", "frames": ["discreq", "discreq"]}]))
        dt = draw(st.sampled_from([0, 0, 0, 1, 2, 4, 5, 8, 64, 300]))
        evs.append({**cause, "at": t0 + dt})
    if draw(st.booleans()):
        evs.append({"do": "chunk", "frames": ["ping"], "at": t0 + draw(st.sampled_from([0, 1, 3, 6]))})
    c["events"] = evs
    return c


def strategy(tier):
    return st.one_of(_biased(tier), _multi_cause(tier))


def enumerated(tier):
    for noise in (False, True):
        base = {"noise": noise, "login": True, "flow": "full", "K": 8.0, "final_at": 200.0}
        for c1 in PAIR_CAUSES:
            for c2 in PAIR_CAUSES:
                for dt in (0, 1, 4):
                    yield {**base, "events": [{**c1, "at": 64}, {**c2, "at": 64 + dt}, {"do": "chunk", "frames": ["ping"], "at": 70}]}
        # every cause alone, at steady state and during the keepalive wait, plus silence -> ping timeout
        for c1 in PAIR_CAUSES + [{"do": "silence"}, {"do": "cancel"}]:
            for at in (40, 64, 2100, 2200):
                yield {**base, "events": [{**c1, "at": at}]}
                yield {**base, "events": [{**c1, "at": at}, {"do": "silence", "at": at + 1}]}
