"""C07 – lifecycle property, see vf/life.py (engine + oracle_c07)."""
from __future__ import annotations

from vf import life
from vf.props._lifeprop import run_with

ID = "C07"
LEVEL = "exploration"
RULE = "placeholder"
ASSUMPTIONS = []
BUDGET = {"quick": {"examples": 800, "shards": 4}, "thorough": {"examples": 20000, "shards": 16}}


def run_case(case):
    res = run_with(ID, case)
    res.nontrivial = "close_before_main_end" in res.classes
    return res


def strategy(tier):
    return life.case_strategy(tier)
