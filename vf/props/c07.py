"""C07 – stop callback exactly once per established session, with the right reason.

Layer S, vf.life engine.  Oracle from the trace: on_stop count == 1 iff the state
log contains CONNECTED (else 0); argument == (a graceful disconnect - disconnect(),
force disconnect, or a DisconnectRequest delivered to an established session - was
initiated before the CLOSED write), "before" = position in the global trace.
"""
from __future__ import annotations

from hypothesis import strategies as st

from vf import life
from vf.props._lifeprop import run_with

ID = "C07"
LEVEL = "exploration"
RULE = (
    "case = lifecycle schedule (see C05) with up to 4 close causes in any order/multiplicity: DisconnectRequest (alone, "
    "repeated, followed by other frames), disconnect(), force disconnect, EOF, reset, write failure on the next write "
    "(incl. on the DisconnectResponse), ping timeout (device silent), garbage / undecodable payload / bad MAC; at "
    "every lifecycle stage. Enumerated: all ordered pairs of 10 causes at the same instant and one tick apart on an "
    "established session, both framings. Oracle: on_stop called exactly once iff CONNECTED was reached; argument "
    "true iff a graceful initiation precedes the CLOSED write in the trace. non-trivial = session reached CONNECTED "
    "and >= 2 close causes occurred. Kind 'chain': 2-4 consecutive sessions on one client, each with its own callback, the "
    "next session started from inside the previous stop callback (before / after its first await) or from outside."
)
ASSUMPTIONS = [
    "a DisconnectRequest counts as a device-initiated disconnect once delivered in state HANDSHAKE_COMPLETE/CONNECTED "
    "(a frame pushed before the client's hello was sent is not a protocol request)",
    "a disconnect() issued while the client holds no connection is a no-op and counts for nothing",
]
EXHAUSTIVE_NOTE = "ordered pairs of 10 close causes x {same instant, 1 tick apart, 1 latency apart} x {plaintext, noise}"
BUDGET = {"quick": {"examples": 700, "shards": 4}, "thorough": {"examples": 25000, "shards": 16}}
FLOORS = {"two_or_more_close_causes": 0.05, "reached_connected": 0.4}

PAIR_CAUSES = [
    {"do": "disconnect"}, {"do": "force"}, {"do": "eof"}, {"do": "reset"},
    {"do": "chunk", "frames": ["discreq"]}, {"do": "chunk", "frames": ["garbage"]}, {"do": "chunk", "frames": ["badproto"]},
    {"do": "writefail_raise"}, {"do": "writefail_fatal"}, {"do": "writefail_raise_rt"},
]


def run_chain(case: dict):
    """Several consecutive sessions on ONE client, each with its own stop callback; session k+1 may be started
    from inside session k's stop callback (before or after its first await) or from outside.  Every callback
    must be invoked exactly once, for its own session, with the right flag."""
    import asyncio
    import base64

    from aioesphomeapi import api_pb2 as pb

    from vf.runner import CaseResult, HarnessError, Violation
    from vf.simloop import START, IterationCap
    from vf.simnet import Env, make_client

    res = CaseResult()
    noise = bool(case.get("noise"))
    env = Env(noise_key=life.KEY if noise else None)
    cli = make_client(env, noise_psk=base64.b64encode(life.KEY).decode() if noise else None, keepalive=64.0)
    sessions = case["sessions"]  # [{"end": how, "next": "in_handler"|"in_handler_after_await"|"outside"}]
    calls: dict[int, list] = {i: [] for i in range(len(sessions))}
    connected = asyncio.Event() if False else None
    state = {"connected": [False] * len(sessions), "errors": []}

    def make_cb(i: int):
        async def cb(expected):
            calls[i].append(expected)
            env.log("on_stop", arg=expected, session=i)
            nxt = sessions[i].get("next")
            if i + 1 < len(sessions) and nxt in ("in_handler", "in_handler_after_await"):
                if nxt == "in_handler_after_await":
                    await asyncio.sleep(0)
                await start(i + 1)
        return cb

    async def start(i: int):
        try:
            await cli.connect(on_stop=make_cb(i), login=True)
            state["connected"][i] = True
            env.log("chain_connected", session=i)
        except BaseException as e:  # noqa: BLE001
            state["errors"].append(f"session {i}: connect raised {e!r}")

    async def end(i: int):
        how = sessions[i]["end"]
        tr = env.dev.session.transport
        if how == "discreq":
            tr.feed(env.dev.session.encode(pb.DisconnectRequest()))
        elif how == "reset":
            tr.reset()
        elif how == "eof":
            tr.feed_eof()
        elif how == "disconnect":
            await cli.disconnect()
        elif how == "force":
            await cli.disconnect(force=True)

    async def main():
        await start(0)
        for i in range(len(sessions)):
            for _ in range(40):
                if state["connected"][i]:
                    break
                await asyncio.sleep(1 / 64)
            if not state["connected"][i]:
                state["errors"].append(f"session {i} was never established")
                return
            await asyncio.sleep(4 / 64)
            await end(i)
            await asyncio.sleep(8 / 64)
            if i + 1 < len(sessions) and sessions[i].get("next") == "outside":
                await start(i + 1)

    env.loop.sim_at(0, lambda: env.spawn("main", main()))
    env.loop.horizon = START + 300
    try:
        env.run()
    except IterationCap as e:
        env.close()
        raise HarnessError(f"C07 chain: {e}") from e
    for err in state["errors"]:
        res.violations.append(Violation(ID, "c07:chain:session-not-established", err))
    for i, s_ in enumerate(sessions):
        if not state["connected"][i]:
            continue
        want = [s_["end"] in ("discreq", "disconnect", "force")]
        if calls[i] != want:
            sig = f"c07:on_stop-count:{len(calls[i])}" if len(calls[i]) != 1 else f"c07:on_stop-arg:{calls[i][0]}-expected-{want[0]}"
            res.violations.append(Violation(ID, sig, f"chain session {i} (ended by {s_['end']}, started {'from the previous stop callback' if i and sessions[i - 1].get('next') != 'outside' else 'normally'}): its stop callback was called {calls[i]}, expected {want}"))
    res.classes = ["chain", "reached_connected"] + (["chain_in_handler"] if any(x.get("next", "").startswith("in_handler") for x in sessions) else [])
    res.nontrivial = len(sessions) >= 2
    res.info = {"sessions": len(sessions), "calls": {str(k): v for k, v in calls.items()}}
    env.close()
    return res


def run_dropped(case: dict):
    """The application connects, keeps no reference to the APIClient (a helper that connects, subscribes and
    returns) and the session lives on in the event loop: when it ends -- whatever the cause -- the stop callback given
    at connect time is still invoked exactly once with the right flag."""
    import base64
    import gc

    from aioesphomeapi import api_pb2 as pb

    from vf.runner import CaseResult, HarnessError, Violation
    from vf.simloop import START, IterationCap
    from vf.simnet import Env, make_client

    res = CaseResult()
    noise = bool(case.get("noise"))
    K = float(case.get("K", 4.0))
    env = Env(noise_key=life.KEY if noise else None)
    calls: list = []
    got_states: list = []
    how = case["end"]

    async def on_stop(expected):
        calls.append((env.loop.now(), expected))

    async def helper():
        cli = make_client(env, noise_psk=base64.b64encode(life.KEY).decode() if noise else None, keepalive=K)
        await cli.connect(on_stop=on_stop, login=bool(case.get("login", True)))
        if case.get("subscribe", True):
            cli.subscribe_states(lambda st_: got_states.append(type(st_).__name__))
        # ... and returns: the only reference to the client was this frame's

    async def main():
        await helper()
        gc.collect()
        env.log("connected")

    def end():
        s = env.dev.session
        tr = s.transport
        if tr.closing:
            return
        env.log("end_injected", how=how)
        if how == "eof":
            tr.feed_eof()
        elif how == "reset":
            tr.reset()
        elif how == "discreq":
            tr.feed(s.encode(pb.DisconnectRequest()))
        elif how == "garbage":
            tr.feed(b"\x07\x07\x07" if not noise else b"\x02\x00\x00")
        elif how == "silence":
            env.dev.auto = set()

    env.loop.sim_at(0, lambda: env.spawn("main", main()))
    env.loop.sim_at(float(case.get("end_at", 3.0)), lambda: (gc.collect(), end()))
    env.loop.horizon = START + float(case.get("end_at", 3.0)) + 8 * K
    try:
        env.run()
    except IterationCap as e:
        env.close()
        raise HarnessError(f"C07 dropped: {e}") from e
    r = env.results.get("main")
    if r is None or r[0] != "ok":
        env.close()
        raise HarnessError(f"C07 dropped: connect did not succeed: {r}")
    want = how == "discreq"
    if [c[1] for c in calls] != [want]:
        res.violations.append(Violation(ID, f"c07:on_stop-count:{len(calls)}:client-not-kept-by-the-application",
                                        f"session ended by {how} after the application dropped its APIClient reference: stop callback calls {calls}, expected exactly one with {want}"))
    res.classes = ["client_not_kept", "end_" + how] + (["noise"] if noise else [])
    res.nontrivial = True
    res.info = {"calls": calls, "end": how}
    env.close()
    return res


def run_case(case):
    if case.get("kind") == "chain":
        return run_chain(case)
    if case.get("kind") == "dropped":
        return run_dropped(case)
    res = run_with(ID, case)
    res.nontrivial = "reached_connected" in res.classes and "two_or_more_close_causes" in res.classes
    return res


@st.composite
def _biased(draw, tier):
    c = draw(life.case_strategy(tier, max_events=4))
    # make sure most sessions get established before causes pile up
    if draw(st.integers(0, 2)) > 0:
        c["tcp"] = "ok"
        c["auto"] = True
        for ev in c["events"]:
            if "at" in ev and ev["at"] < 30 and draw(st.booleans()):
                ev["at"] += 30
    if draw(st.integers(0, 3)) == 0:
        # a ping / request right after an armed write failure, so that the write error is the cause
        c["events"].append({"do": "chunk", "frames": ["ping"], "at": draw(st.integers(30, 300))})
    return c


@st.composite
def _multi_cause(draw, tier):
    """Established session, then 2-4 close causes inside a small window (same turn .. a few ticks apart);
    a slow device keeps a graceful disconnect() pending while the other causes arrive."""
    c = {
        "noise": draw(st.booleans()),
        "login": draw(st.booleans()),
        "flow": draw(st.sampled_from(["connect", "full"])),
        "K": 8.0,
        "final_at": 200.0,
        "latency": draw(st.sampled_from([1, 1, 8, 64])),
    }
    t0 = draw(st.sampled_from([200, 300, 2300, 2600]))
    n = draw(st.integers(2, 4))
    evs = []
    for _ in range(n):
        cause = draw(st.sampled_from(PAIR_CAUSES + [{"do": "silence"}, {"do": "cancel"}, {"do": "chunk", "frames": ["discreq", "discreq"]}]))
        dt = draw(st.sampled_from([0, 0, 0, 1, 2, 4, 5, 8, 64, 300]))
        evs.append({**cause, "at": t0 + dt})
    if draw(st.booleans()):
        evs.append({"do": "chunk", "frames": ["ping"], "at": t0 + draw(st.sampled_from([0, 1, 3, 6]))})
    if draw(st.integers(0, 3)) == 0:
        # the caller of a graceful disconnect() gives up while it is pending; the session ends later by another cause
        td = t0 - draw(st.sampled_from([1, 4, 30]))
        evs = [{"do": "disconnect", "at": td}, {"do": "cancel_disc", "at": td + draw(st.sampled_from([0, 1, 2]))}] + evs
        c["latency"] = 64
    c["events"] = evs
    return c


@st.composite
def _chain(draw, tier):
    n = draw(st.integers(2, 4))
    return {"kind": "chain", "noise": draw(st.integers(0, 3)) == 0, "sessions": [
        {"end": draw(st.sampled_from(["discreq", "reset", "eof", "disconnect", "force"])), "next": draw(st.sampled_from(["in_handler", "in_handler", "in_handler_after_await", "outside"]))} for _ in range(n)]}


@st.composite
def _dropped(draw, tier):
    return {"kind": "dropped", "noise": draw(st.booleans()), "login": draw(st.booleans()), "subscribe": draw(st.booleans()), "K": draw(st.sampled_from([1.0, 4.0])),
            "end": draw(st.sampled_from(["eof", "reset", "discreq", "garbage", "silence"])), "end_at": draw(st.sampled_from([0.5, 3.0, 9.0]))}


def strategy(tier):
    return st.one_of(_biased(tier), _biased(tier), _multi_cause(tier), _multi_cause(tier), _chain(tier), _dropped(tier))


def enumerated(tier):
    for how in ("eof", "reset", "discreq", "garbage", "silence"):
        for noise in (False, True):
            yield {"kind": "dropped", "noise": noise, "login": True, "subscribe": noise, "K": 1.0, "end": how, "end_at": 3.0}
    for e1 in ("discreq", "reset", "eof", "disconnect", "force"):
        for nxt in ("in_handler", "in_handler_after_await", "outside"):
            for e2 in ("discreq", "reset", "force"):
                yield {"kind": "chain", "noise": e2 == "reset" and nxt == "outside", "sessions": [{"end": e1, "next": nxt}, {"end": e2, "next": nxt}, {"end": e1, "next": "outside"}]}
    for noise in (False, True):
        base = {"noise": noise, "login": True, "flow": "full", "K": 8.0, "final_at": 200.0}
        for c1 in PAIR_CAUSES:
            for c2 in PAIR_CAUSES:
                for dt in (0, 1, 4):
                    yield {**base, "events": [{**c1, "at": 64}, {**c2, "at": 64 + dt}, {"do": "chunk", "frames": ["ping"], "at": 70}]}
        # a graceful disconnect() whose caller gives up (cancelled) while the device has not answered; then each cause
        for c2 in PAIR_CAUSES + [{"do": "silence"}, {"do": "cancel"}]:
            for dt in (0, 1, 8):
                for gap in (2, 40, 300):
                    yield {**base, "latency": 64, "events": [{"do": "disconnect", "at": 64}, {"do": "cancel_disc", "at": 64 + dt}, {**c2, "at": 64 + dt + gap}]}
        # disconnect() during a slow hello gives up waiting (5 s, records its timeout), the device answers after all, the
        # disconnect() caller gives up too; later the session is lost
        for login in (False, True):
            for c2 in ({"do": "eof"}, {"do": "reset"}, {"do": "chunk", "frames": ["garbage"]}, {"do": "silence"}, {"do": "writefail_raise"}):
                yield {"noise": noise, "login": login, "flow": "connect", "K": 8.0, "final_at": 400.0, "latency": 400,
                       "events": [{"do": "disconnect", "at": 30}, {"do": "cancel_disc", "at": 256 * (7 if not login else 14)}, {**c2, "at": 256 * (8 if not login else 15)}, {"do": "chunk", "frames": ["ping"], "at": 256 * 16}]}
        # every cause alone, at steady state and during the keepalive wait, plus silence -> ping timeout
        for c1 in PAIR_CAUSES + [{"do": "silence"}, {"do": "cancel"}]:
            for at in (40, 64, 2100, 2200):
                yield {**base, "events": [{**c1, "at": at}]}
                yield {**base, "events": [{**c1, "at": at}, {"do": "silence", "at": at + 1}]}
