"""C02 – everything the client writes conforms to the documented wire format.

Layer F: write_packets of both real frame helpers, decoded by the independent
codec (vf.wire) and, for Noise, decrypted by the reference responder under
explicit consecutive nonces (vf.noise_ref).
Layer S (mode "api"): real APIConnection.send_messages on a simulated session,
type id on the wire must equal the (id) option of the message's descriptor.
"""
from __future__ import annotations

import base64

from hypothesis import strategies as st

from vf import fstub, gen, noise_ref, wire
from vf.runner import CaseResult, Violation

ID = "C02"
LEVEL = "exploration"
RULE = (
    "case = framing (plaintext | noise with a generated 32-byte key | api = real send_messages on a simulated "
    "plaintext/noise session) + a sequence of 1..40 write calls, each a batch of 1..8 (type, payload) packets; "
    "type ids: every registered id + varint/16-bit boundaries; payload sizes 0,1,127,128,16383,16384,65515 and random. "
    "Each write is decoded by an independent decoder (minimal varints; Noise: explicit nonce = number of frames "
    "previously written); optionally the transport's pause_writing/resume_writing callbacks and loop turns between calls. non-trivial = a batch with >=2 packets, or a boundary length/type, or a Noise write index >= 2."
)
ASSUMPTIONS = [
    "Noise payloads above 65515 bytes are outside the documented frame size: what the call itself does is not judged, only that the frames written after such an attempt still carry nonce = number of frames on the wire",
    "reference responder = stock noiseprotocol handshake + cryptography ChaCha20Poly1305 under explicit nonces",
]
BUDGET = {
    "quick": {"examples": 700, "shards": 4},
    "thorough": {"examples": 7000, "shards": 16},
}
FLOORS = {"noise": 0.25, "plain": 0.25, "batch_ge_2": 0.3, "noise_writes_ge_3": 0.1}

BOUNDARY_L = {0, 1, 127, 128, 16383, 16384, 65515}
API_READY = False


def _noise_session(key: bytes):
    """Real helper brought to READY by the reference responder."""
    h, conn, tr = fstub.make_noise(base64.b64encode(key).decode(), None)
    hello, hs = noise_ref.split_client_hello(tr.writes[0])
    r = noise_ref.Responder(key)
    answer = r.accept_client_handshake(hs)
    h.data_received(wire.enc_noise_outer(noise_ref.server_hello(b"dev")) + wire.enc_noise_outer(answer))
    if not h.ready_future.done() or h.ready_future.exception():
        raise RuntimeError("handshake did not complete in C02 setup")
    return h, conn, tr, r


def run_case(case: dict) -> CaseResult:
    if case["mode"] == "api":
        from vf.props import c02_api

        return c02_api.run_case(case)
    res = CaseResult()
    classes = {case["mode"]}
    calls = [[(p[0], gen.payload_bytes(p[1])) for p in batch] for batch in case["calls"]]
    nt = False
    if case["mode"] == "plain":
        h, conn, tr = fstub.make_plain()
        base = len(tr.writes)
        r = None
    else:
        key = bytes.fromhex(case["key"])
        h, conn, tr, r = _noise_session(key)
        base = len(tr.writes)
    frames_written = 0
    flow = case.get("flow") or {}
    if case.get("neighbour_fails"):
        # another connection of the same kind lives in this process and one of its writes fails (the transport raises):
        # that is its own business -- nothing of it may show up in what THIS connection writes
        classes.add("neighbour_write_failed")
        if case["mode"] == "plain":
            h2, _c2, tr2 = fstub.make_plain()
        else:
            h2, _c2, tr2, _r2 = _noise_session(bytes(range(32, 64)))
        tr2.fail_next = RuntimeError("unable to perform operation on <TCPTransport closed=True>") if case["neighbour_fails"] == "rt" else OSError(32, "Broken pipe")
        try:
            h2.write_packets([(33, b"\x0d\x01\x00\x00\x00\x10\x01"), (7, b"")], False)
        except Exception:  # noqa: BLE001
            pass
    # a long session before the generated calls: `prefix_frames` single-packet writes, each decoded / authenticated
    # under its own explicit nonce (byte boundaries of the 64-bit counter: 255->256, 65535->65536)
    npre = int(case.get("prefix_frames") or 0)
    if npre:
        dbg = bool(case.get("debug"))
        for i in range(npre):
            t, p = 1 + i % 123, (b"" if i % 3 else bytes([i & 0xFF]))
            before = len(tr.writes)
            h.write_packets([(t, p)], dbg)
            new = tr.writes[before:]
            ok = len(new) == 1
            if ok and case["mode"] == "plain":
                ok = new[0] == wire.enc_plain(t, p)
            elif ok:
                try:
                    bodies, rest = wire.parse_noise_outer(new[0])
                    ok = rest == len(new[0]) and len(bodies) == 1 and wire.dec_noise_inner(r.decrypt_at(bodies[0][0], frames_written)) == (t, len(p), p)
                except (wire.PlainParseError, noise_ref.InvalidTag):
                    ok = False
            if not ok:
                res.violations.append(Violation(ID, "c02:long-session-frame", f"frame #{frames_written} of a long session (single-packet writes) is not the documented encoding of ({t}, {len(p)} bytes) under nonce {frames_written}"))
                res.nontrivial = True
                res.classes = sorted(classes | {"long_session"})
                return res
            frames_written += 1
            del tr.writes[before:]
            del tr.objs[before:]
        classes.add("long_session")
        if npre >= 256:
            classes.add("nonce_ge_256")
        nt = True
    for ci, batch in enumerate(calls):
        # transport flow-control callbacks (pause_writing / resume_writing) and loop turns between the write calls:
        # every batch is still one immediate write, in call order
        for act in flow.get(str(ci), []):
            classes.add("flow_control")
            if act == "pause":
                h.pause_writing()
            elif act == "resume":
                h.resume_writing()
            elif act == "turn":
                import asyncio

                fstub.loop().run_until_complete(asyncio.sleep(0))
        before = len(tr.writes)
        if not batch:
            # the empty batch decodes to no message: nothing (or nothing but a zero-length write) goes out, and the next
            # batch is framed / numbered as if it had not been there
            classes.add("empty_batch")
            try:
                h.write_packets([], bool(case.get("debug")))
            except Exception as e:  # noqa: BLE001
                res.violations.append(Violation(ID, f"c02:write_packets-raised:{type(e).__name__}", "empty batch: " + repr(e)))
                break
            junk = b"".join(bytes(x) for x in tr.writes[before:])
            if junk:
                res.violations.append(Violation(ID, "c02:empty-batch-wrote-bytes", f"call {ci} with no packets wrote {junk.hex()}"))
                break
            continue
        if case["mode"] == "noise" and any(len(p) > 65515 for _t, p in batch):
            # OUT OF DOMAIN for the encoding itself (the 16-bit lengths cannot carry it): whatever the call does --
            # refuse, or write something -- is not judged.  What IS judged: the frames written afterwards still carry
            # the nonce = number of frames on the wire (a refused call must not use up nonces).
            classes.add("oversize_attempt")
            try:
                h.write_packets(list(batch), bool(case.get("debug")))
            except Exception:  # noqa: BLE001
                pass
            new = tr.writes[before:]
            if not new:
                continue
            # something was written: account for the frames in it by their known ciphertext lengths
            data = b"".join(new)
            want_len = sum(3 + 4 + len(p) + 16 for _t, p in batch)
            ok = len(data) == want_len
            off = 0
            if ok:
                for _t, p in batch:
                    body = data[off + 3: off + 3 + 4 + len(p) + 16]
                    off += 3 + len(body)
                    try:
                        r.decrypt_at(body, frames_written)
                    except noise_ref.InvalidTag:
                        ok = False
                        break
                    frames_written += 1
            if not ok:
                classes.add("oversize_untracked")  # cannot tell how many nonces are on the wire: stop judging this session
                break
            if conn.errors:
                break
            continue
        try:
            h.write_packets(list(batch), bool(case.get("debug")))
        except Exception as e:  # noqa: BLE001
            res.violations.append(Violation(ID, f"c02:write_packets-raised:{type(e).__name__}", repr(e)))
            break
        new = tr.writes[before:]
        if len(new) != 1:
            res.violations.append(
                Violation(ID, "c02:not-a-single-write", f"call {ci} with {len(batch)} packets produced {len(new)} writes")
            )
            break
        data = new[0]
        if len(batch) >= 2:
            classes.add("batch_ge_2")
            nt = True
        if any(len(p) in BOUNDARY_L or t in gen.BOUNDARY_TYPES for t, p in batch):
            classes.add("boundary")
            nt = True
        if case["mode"] == "plain":
            try:
                got, rest = wire.parse_plain_stream(data, require_minimal=True)
            except wire.PlainParseError as e:
                res.violations.append(Violation(ID, "c02:plain-undecodable", f"call {ci}: {e}"))
                break
            if rest != len(data) or [(t, p) for t, p, _ in got] != batch:
                res.violations.append(
                    Violation(
                        ID,
                        "c02:plain-decode-mismatch",
                        f"call {ci}: decoded {[(t, len(p)) for t, p, _ in got][:6]} rest={rest}/{len(data)} "
                        f"expected {[(t, len(p)) for t, p in batch][:6]}",
                    )
                )
                break
        else:
            try:
                bodies, rest = wire.parse_noise_outer(data)
            except wire.PlainParseError as e:
                res.violations.append(Violation(ID, "c02:noise-outer-undecodable", f"call {ci}: {e}"))
                break
            if rest != len(data) or len(bodies) != len(batch):
                res.violations.append(
                    Violation(ID, "c02:noise-frame-count", f"call {ci}: {len(bodies)} frames rest={rest}/{len(data)} for {len(batch)} packets")
                )
                break
            bad = None
            for (body, _end), (t, p) in zip(bodies, batch):
                try:
                    pt = r.decrypt_at(body, frames_written)
                except noise_ref.InvalidTag:
                    bad = Violation(
                        ID,
                        "c02:noise-nonce-or-key",
                        f"call {ci}: frame #{frames_written} does not authenticate under nonce {frames_written}",
                    )
                    break
                frames_written += 1
                try:
                    gt, gl, gp = wire.dec_noise_inner(pt)
                except wire.PlainParseError as e:
                    bad = Violation(ID, "c02:noise-inner-short", str(e))
                    break
                if (gt, gl, gp) != (t, len(p), p):
                    bad = Violation(
                        ID,
                        "c02:noise-inner-mismatch",
                        f"call {ci}: inner header type={gt} len={gl} payload_len={len(gp)}; expected type={t} len={len(p)}",
                    )
                    break
            if bad:
                res.violations.append(bad)
                break
            if ci >= 2:
                classes.add("noise_writes_ge_3")
                nt = True
        if conn.errors:
            res.violations.append(Violation(ID, "c02:error-reported-on-write", repr(conn.errors)))
            break
        # what was handed to the transport earlier is still what it was (the transport may not have sent it yet)
        changed = next((k for k, (o_, w_) in enumerate(zip(tr.objs, tr.writes)) if bytes(o_) != w_), None)
        if changed is not None:
            res.violations.append(Violation(ID, "c02:written-buffer-changed-afterwards", f"the object given to transport.write() as write #{changed} ({type(tr.objs[changed]).__name__}) changed after call {ci}"))
            break
    res.nontrivial = nt
    res.classes = sorted(classes)
    res.info = {"calls": len(calls), "packets": sum(len(b) for b in calls)}
    return res


# ------------------------------------------------------------------ generators
@st.composite
def _case(draw, tier):
    m = draw(st.integers(0, 9))
    if m <= 1 and API_READY:
        from vf.props import c02_api

        return draw(c02_api.strategy(tier))
    mode = "noise" if m <= 5 else "plain"
    ncalls = draw(st.one_of(st.integers(1, 4), st.integers(1, 40 if tier == "thorough" else 16)))
    big_budget = 3
    calls = []
    for _ in range(ncalls):
        n = draw(st.one_of(st.just(1), st.integers(1, 8), st.sampled_from([0, 1, 2, 3])))
        batch = []
        for _ in range(n):
            if mode == "noise":
                t = draw(st.one_of(st.sampled_from(range(1, 124)), st.sampled_from([0, 255, 256, 65535]), st.integers(0, 65535)))
                spec = draw(gen.payload_spec(max_len=65515))
            else:
                t = draw(gen.msg_type_ids())
                spec = draw(gen.payload_spec())
            if len(gen.payload_bytes(spec)) > 5000:
                if big_budget == 0:
                    spec = {"h": spec["h"][:16]}
                big_budget -= 1
            batch.append([t, spec])
        calls.append(batch)
    case = {"mode": mode, "calls": calls}
    if draw(st.integers(0, 3)) == 0:
        case["flow"] = {str(i): draw(st.lists(st.sampled_from(["pause", "resume", "turn"]), min_size=1, max_size=3)) for i in range(len(calls)) if draw(st.booleans())}
    if mode == "noise":
        case["key"] = draw(st.one_of(st.binary(min_size=32, max_size=32), st.sampled_from([bytes(32), b"\xff" * 32]))).hex()
    if draw(st.integers(0, 9)) == 4:
        case["neighbour_fails"] = draw(st.sampled_from(["rt", "os"]))
    if mode == "noise" and draw(st.integers(0, 14)) == 7 and len(calls) >= 2:
        k = draw(st.integers(0, len(calls) - 2))
        calls[k].insert(draw(st.integers(0, len(calls[k]))), [106, {"h": "", "pad": [0x43, draw(st.sampled_from([65516, 65536, 66000, 70000]))]}])
    if draw(st.integers(0, 19)) == 11:
        case["prefix_frames"] = draw(st.one_of(st.integers(250, 262), st.integers(100, 1200)))
    return case


def strategy(tier):
    from vf.props import c02_api

    return st.one_of(_case(tier), _case(tier), _case(tier), c02_api.strategy(tier))


def enumerated(tier):
    # every registered id once, alone and in one big batch, both framings; boundary sizes
    regs = list(range(1, 124))
    key = bytes(range(32)).hex()
    yield {"mode": "plain", "calls": [[[t, {"h": "0801"}]] for t in regs[:40]]}
    yield {"mode": "noise", "key": key, "calls": [[[t, {"h": "0801"}]] for t in regs[:40]]}
    for calls in ([[], [[7, {"h": ""}]]], [[[7, {"h": ""}]], [], [[8, {"h": ""}], [26, {"h": "0801"}]], [], []], [[]]):
        yield {"mode": "plain", "calls": calls}
        yield {"mode": "noise", "key": key, "calls": calls}
    for lo in range(0, 123, 8):
        yield {"mode": "plain", "calls": [[[t, {"h": "%02x" % t}] for t in regs[lo : lo + 8]]]}
        yield {"mode": "noise", "key": key, "calls": [[[t, {"h": "%02x" % t}] for t in regs[lo : lo + 8]]]}
    for ln in sorted(BOUNDARY_L | {2, 126, 129, 255, 256, 16385}):
        yield {"mode": "plain", "calls": [[[1, {"h": "", "pad": [0x41, ln]}], [128, {"h": ""}]]]}
        yield {"mode": "noise", "key": key, "calls": [[[1, {"h": "", "pad": [0x41, ln]}]], [[2, {"h": ""}]], [[3, {"h": "01"}]]]}
    for t in gen.BOUNDARY_TYPES:
        yield {"mode": "plain", "calls": [[[t, {"h": "ff"}]]]}
        if t <= 65535:
            yield {"mode": "noise", "key": key, "calls": [[[t, {"h": "ff"}]]]}
    for mode in ("plain", "noise"):
        c = {"mode": mode, "calls": [[[7, {"h": ""}]], [[33, {"h": "0801"}], [30, {"h": "10"}]], [[8, {"h": ""}]], [[62, {"h": "08011001"}]], [[9, {"h": ""}]]],
             "flow": {"1": ["pause"], "3": ["resume"], "4": ["turn"]}}
        if mode == "noise":
            c["key"] = key
        yield c
        yield {**c, "flow": {"0": ["pause"], "1": ["turn"], "2": ["resume", "turn"], "4": ["pause", "resume"]}}
    # long sessions: the nonce counter crosses its first (and, thorough: second) byte boundary
    tail = [[[7, {"h": ""}]], [[33, {"h": "0801"}], [30, {"h": "10"}]], [[8, {"h": ""}]]]
    for n in (254, 255, 256, 511, 513, 770) + ((65534, 65536, 131071) if tier == "thorough" else (65535,)):
        yield {"mode": "noise", "key": key, "prefix_frames": n, "calls": tail}
    yield {"mode": "plain", "prefix_frames": 300, "calls": tail}
    for mode in ("plain", "noise"):
        for how in ("rt", "os"):
            c = {"mode": mode, "neighbour_fails": how, "calls": [[[7, {"h": ""}]], [[8, {"h": ""}], [26, {"h": "0d01000000"}]]]}
            if mode == "noise":
                c["key"] = key
            yield c
    # an oversize payload is attempted (alone / as a later member of a batch), then ordinary traffic
    for big in (65516, 65535, 70000):
        yield {"mode": "noise", "key": key, "calls": [[[7, {"h": ""}]], [[106, {"h": "", "pad": [0x41, big]}]], [[7, {"h": ""}]], [[8, {"h": ""}], [7, {"h": ""}]]]}
        yield {"mode": "noise", "key": key, "calls": [[[7, {"h": ""}], [106, {"h": "", "pad": [0x42, big]}], [8, {"h": ""}]], [[7, {"h": ""}]], [[26, {"h": "0d01000000"}]]]}
    # debug logging on while large frames are written
    for mode in ("plain", "noise"):
        c = {"mode": mode, "debug": True, "calls": [[[1, {"h": "", "pad": [0x41, ln]}]] for ln in (1000, 1017, 1018, 1019, 1024, 1025, 2048, 16384, 65515)] + [[[1, {"h": "", "pad": [0x42, 700]}], [2, {"h": "", "pad": [0x43, 700]}]]]}
        if mode == "noise":
            c["key"] = key
        yield c
    from vf.props import c02_api

    yield from c02_api.enumerated(tier)
