"""C06 – sessions only with a compatible, correctly named, authenticated device.

Layer S.  The device's hello/connect answers are scripted (version, names, password
verdict, order, chunking) against every client configuration; the outcome of
APIClient.connect is compared with the decision table of the statement.
"""
from __future__ import annotations

import base64

from hypothesis import strategies as st

from vf import noise_ref, wire
from vf.life import KEY
from vf.runner import CaseResult, HarnessError, Violation
from vf.simloop import START, IterationCap
from vf.simnet import Env, make_client

ID = "C06"
LEVEL = "exploration"
RULE = (
    "case = client configuration (plaintext|noise, login on/off, password set/unset, expected name unset|'dev') x device "
    "answer (API major in {0,1,2,3,4,2^32-1}, minor in {0,10,255}, HelloResponse name in {'', 'dev', 'other', 'Dev', "
    "unicode}, Noise hello name in {absent, 'dev', 'other', ''}, invalid_password flag, answer order in {Hello+Connect, "
    "Connect+Hello, Hello twice, Hello only, Connect only}, one chunk or cut anywhere / sent as separate chunks). "
    "Oracle = decision table of the statement; on rejection: exception among the applicable specific classes, state "
    "CLOSED, stop callback not invoked, nothing left armed/open; on success api_version equals the announced one. "
    "non-trivial = the case sits next to an accept/reject boundary (major 2|3, name empty|equal|different, "
    "invalid_password, non-conformant order) or its answer is split/merged across chunks. Enumerated: the full table "
    "with fixed minor/password (quick) or complete (thorough)."
)
ASSUMPTIONS = [
    "API major 0 is generated but not asserted (whether it is a supported version is not stated)",
    "an empty HelloResponse name means 'no name announced' (proto3 cannot tell the difference) and is accepted",
    "when several rejection reasons apply, any of the corresponding error classes is accepted",
    "a ConnectResponse that arrives before the HelloResponse (or no HelloResponse at all) with login requested is a non-conformant answer: connect must not succeed (any APIConnectionError)",
]
EXHAUSTIVE_NOTE = "decision table enumerated: quick with minor=10 and password unset, thorough complete (~15k combinations)"
BUDGET = {"quick": {"examples": 450, "shards": 4}, "thorough": {"examples": 4000, "shards": 16}}
FLOORS = {"accepted": 0.08, "rejected": 0.4, "split_answer": 0.2}

MAJORS = [0, 1, 2, 3, 4, 2**32 - 1]
API_NAMES = ["", "dev", "other", "Dev"]
NOISE_NAMES = [None, "dev", "other", "", "other\x00AABBCCDDEEFF", "dev\x00AABBCCDDEEFF"]
ORDERS = ["hc", "ch", "hh", "h", "c"]


def decide(c: dict):
    """-> (must_succeed: bool|None, acceptable error class names)"""
    reasons = set()
    login = c["login"]
    order = c["order"]
    exp = c.get("expected")
    if c["noise"]:
        nn = c.get("noise_name")
        if nn is not None:
            nn = nn.split("\x00", 1)[0]  # newer firmware appends further NUL-terminated fields (MAC) after the name
        if nn is not None and exp is not None and nn != exp:
            return False, {"BadNameAPIError"}, "noise-name"
    hello_seen_in_time = "h" in order if not login else order in ("hc",)
    if login and order in ("ch", "c"):
        return False, {"*any*"}, "nonconformant-order"
    if login and order in ("hh", "h"):
        # hello arrives, connect never does: the call times out – unless the hello itself is rejected first
        pass
    if not hello_seen_in_time and not (login and order in ("hh", "h")):
        return False, {"TimeoutAPIError"}, "no-hello"
    if c["major"] == 0:
        return None, set(), "major0"
    hello_reasons = set()
    if c["major"] > 2:
        hello_reasons.add("APIConnectionError")
    if exp is not None and c["api_name"] and c["api_name"] != exp:
        hello_reasons.add("BadNameAPIError")
    if login and order in ("hh", "h"):
        # hello is only processed once the stop message arrives; here it never does
        return False, {"TimeoutAPIError"}, "no-connect-response"
    reasons |= hello_reasons
    if login and c["invalid_password"]:
        reasons.add("InvalidAuthAPIError")
    if reasons:
        return False, reasons, "table"
    return True, set(), "table"


def run_case(c: dict) -> CaseResult:
    from aioesphomeapi import api_pb2 as pb
    from aioesphomeapi.core import APIConnectionError
    from aioesphomeapi.model import APIVersion

    res = CaseResult()
    noise = bool(c["noise"])
    env = Env(noise_key=KEY if noise else None)
    dev = env.dev
    dev.auto = {5, 7}
    if noise:
        nn = c.get("noise_name")
        dev.noise_name = None if nn is None else nn.encode()

    def answer(sess):
        hello = pb.HelloResponse(api_version_major=c["major"], api_version_minor=c["minor"], name=c["api_name"], server_info="sim")
        conn = pb.ConnectResponse(invalid_password=bool(c["invalid_password"]))
        if c.get("unknown_fields"):
            # newer firmware: the answers carry fields this client's api.proto does not know (legal protobuf; ignored)
            hello = (2, hello.SerializeToString() + b"\xa0\x06\x01")          # field 100, varint 1
            conn = (4, conn.SerializeToString() + b"\x10\x01\xaa\x06\x02hi")  # field 2 varint, field 101 bytes
        seq = {"hc": [hello, conn], "ch": [conn, hello], "hh": [hello, hello], "h": [hello], "c": [conn]}[c["order"]]
        if c.get("separate"):
            for i, m in enumerate(seq):
                sess.send(m, delay=(1 + i) / 64)
        else:
            tr_ = c.get("trailer")
            data = b"".join(sess.encode(m) for m in seq)
            if tr_ == "discreq":
                data += sess.encode(pb.DisconnectRequest())
            elif tr_ == "garbage":
                data += b"\x02\x00\x00zz" if noise else b"\x07\x01\x02"
            sess.send_raw(data, cuts=c.get("cuts"))
            if tr_ == "eof":
                env.loop.sim_after(max(dev.latency, sess._next_feed - env.loop.time()), sess.transport.feed_eof)

    answered = []

    def on_frame(sess, t, p):
        if t == 1 and not answered:
            answered.append(1)
            answer(sess)
            return True
        if t in (1, 3):
            return True
        return False

    dev.on_frame = on_frame
    cli = make_client(
        env,
        password=c.get("password"),
        noise_psk=base64.b64encode(KEY).decode() if noise else None,
        expected_name=c.get("expected") if not c.get("exp_via") else c.get("ctor_expected"),
    )
    if c.get("exp_via") == 1:  # the expected name is configured through the public setter before connecting
        cli.expected_name = c.get("expected")
    stops = []

    async def on_stop(x):
        stops.append(x)

    info = {}

    async def flow():
        if c.get("exp_via") == 2:  # ... or between the two public phases of connecting
            await cli.start_connection(on_stop=on_stop)
            cli.expected_name = c.get("expected")
            await cli.finish_connection(login=c["login"])
        else:
            await cli.connect(on_stop=on_stop, login=c["login"])
        info["api_version"] = cli.api_version
        info["state"] = env.conns[-1].connection_state.name

    env.loop.sim_at(0, lambda: env.spawn("main", flow()))
    if c.get("disc_pending"):
        # somebody calls disconnect() while the hello / login answer is still on its way (the device takes a second)
        # and gives up on it again before the answer arrives: the verdict on that answer is the same as ever
        dev.latency = 1.0
        env.loop.sim_at(0.3, lambda: env.spawn("ldisc", cli.disconnect()))
        env.loop.sim_at(0.5, lambda: env.cancel("ldisc"))
    env.loop.horizon = START + 200.0
    try:
        env.run()
    except IterationCap as e:
        env.close()
        raise HarnessError(str(e)) from e
    r = env.results.get("main")
    must, classes_ok, why = decide(c)
    if c.get("trailer") and not c.get("separate"):
        if must is True:
            must, why = None, "accepted-answer-followed-by-close"  # what then happens is C05's business
        elif must is False and why in ("no-hello", "no-connect-response"):
            classes_ok = {"*any*"}  # the close arrives before the timeout would
    outcome = "pending" if r is None else "ok" if r[0] == "ok" else type(r[1]).__name__
    if r is None:
        res.violations.append(Violation(ID, "c06:connect-hung", str(c)))
    elif must is True:
        if outcome != "ok":
            res.violations.append(Violation(ID, f"c06:valid-device-rejected:{outcome}", f"{c}: {r[1]!r}"))
        else:
            if info.get("api_version") != APIVersion(c["major"], c["minor"]):
                res.violations.append(Violation(ID, "c06:api-version-mismatch", f"{info.get('api_version')} vs announced {c['major']}.{c['minor']}"))
            if info.get("state") != "CONNECTED":
                res.violations.append(Violation(ID, "c06:success-not-connected", str(info.get("state"))))
    elif must is False:
        if outcome == "ok":
            res.violations.append(Violation(ID, f"c06:accepted-despite:{why}:{'+'.join(sorted(classes_ok))}", f"{c}: connect() succeeded"))
        else:
            exc = r[1]
            if not isinstance(exc, APIConnectionError):
                res.violations.append(Violation(ID, f"c06:raw-exception:{outcome}", repr(exc)))
            elif "*any*" not in classes_ok and outcome not in classes_ok:
                res.violations.append(Violation(ID, f"c06:error-class:{outcome}-expected-{'|'.join(sorted(classes_ok))}", f"{c}: {exc!r}"))
            if outcome == "BadNameAPIError":
                want_names = {c["api_name"]} | ({(c.get("noise_name") or "").split("\x00", 1)[0] if c.get("noise_name") is not None else None} if noise else set())
                if getattr(exc, "received_name", None) not in want_names:
                    res.violations.append(Violation(ID, "c06:bad-name-without-received-name", repr(exc)))
            if outcome == "APIConnectionError" and "APIConnectionError" in classes_ok and str(c["major"]) not in str(exc):
                res.violations.append(Violation(ID, "c06:version-error-does-not-mention-version", repr(exc)))
            st_ = env.conns[-1].connection_state.name if env.conns else None
            if st_ != "CLOSED":
                res.violations.append(Violation(ID, f"c06:rejected-but-state:{st_}", str(c)))
            if stops:
                res.violations.append(Violation(ID, "c06:on_stop-after-rejection", str(stops)))
            left = env.audit()
            if left:
                res.violations.append(Violation(ID, "c06:leftover-after-rejection", ";".join(left[:4])))
    cl = set()
    if outcome == "ok":
        cl.add("accepted")
    elif must is False:
        cl.add("rejected")
    if c.get("cuts") or c.get("separate"):
        cl.add("split_answer")
    if noise:
        cl.add("noise")
    if c.get("exp_via"):
        cl.add("expected_name_via_setter")
    boundary = c["major"] in (2, 3) or c["invalid_password"] or c["order"] != "hc" or (c.get("expected") is not None)
    res.classes = sorted(cl)
    res.nontrivial = bool(boundary or "split_answer" in cl)
    res.info = {"outcome": outcome, "why": why}
    if outcome == "ok":
        # wind the session down
        env.loop.horizon = None
        env.spawn("final", cli.disconnect(force=True))
        try:
            env.run()
        except IterationCap:
            pass
    env.close()
    return res


# ------------------------------------------------------------------ generators
@st.composite
def _case(draw, tier):
    noise = draw(st.booleans())
    c = {
        "noise": noise,
        "login": draw(st.booleans()),
        "password": draw(st.sampled_from([None, "pw"])),
        "expected": draw(st.sampled_from([None, "dev", "dev", "patio", "Dev", "de"])),
        "major": draw(st.sampled_from(MAJORS + [1, 2, 3])),
        "minor": draw(st.sampled_from([0, 10, 255])),
        "api_name": draw(st.sampled_from(API_NAMES + ["dév", "dev ", "patio", "pati", "dev-2", "de"])),
        "invalid_password": draw(st.integers(0, 3)) == 0,
        "order": draw(st.sampled_from(ORDERS + ["hc", "hc", "hc"])),
    }
    if noise:
        c["noise_name"] = draw(st.sampled_from(NOISE_NAMES + [None, "dev"]))
    if draw(st.integers(0, 4)) == 1:
        c["unknown_fields"] = True
    if draw(st.integers(0, 3)) == 2:
        c["exp_via"] = draw(st.sampled_from([1, 2]))
        c["ctor_expected"] = draw(st.sampled_from([None, "other", "dev"]))
    m = draw(st.integers(0, 3))
    if m == 0:
        c["cuts"] = draw(st.lists(st.integers(0, 40), min_size=1, max_size=3))
    elif m == 1:
        c["separate"] = True
    if m != 1 and draw(st.integers(0, 3)) == 0:
        # the verdict is followed, in the same chunk / turn, by something that closes the connection
        c["trailer"] = draw(st.sampled_from(["discreq", "garbage", "eof"]))
    return c


def strategy(tier):
    return _case(tier)


def enumerated(tier):
    # an abandoned disconnect() while the answer is on its way, every single-reason refusal and the accepted case
    for noise in (False, True):
        for login in (False, True):
            for major, an, ip in ((1, "dev", False), (3, "dev", False), (1, "other", False), (1, "dev", True)):
                c = {"noise": noise, "login": login, "password": None, "expected": "dev", "major": major, "minor": 10, "api_name": an, "invalid_password": ip, "order": "hc", "disc_pending": True}
                if noise:
                    c["noise_name"] = None
                yield c
    # expected names of every shape (ending in letters of ".local", with dots and hyphens): equal -> accepted, one
    # character less / a suffix more -> refused
    for exp in ("patio", "hall", "studio", "garage-local", "dev.local", "coca-cola", "plug"):
        for an in (exp, exp[:-1], exp.rstrip(".local"), exp + "-2", exp + "x"):
            if not an:
                continue
            for noise in (False, True):
                for login in (False, True):
                    for via in (0, 1):
                        c = {"noise": noise, "login": login, "password": None, "expected": exp, "major": 1, "minor": 10, "api_name": an, "invalid_password": False, "order": "hc"}
                        if noise:
                            c["noise_name"] = an if via else None
                        if via:
                            c.update({"exp_via": 1, "ctor_expected": None})
                        yield c
    minors = [10] if tier == "quick" else [0, 10, 255]
    pws = [None] if tier == "quick" else [None, "pw"]
    for noise in (False, True):
        for login in (False, True):
            for pw in pws:
                for exp in (None, "dev"):
                    for major in MAJORS:
                        for minor in minors:
                            for an in API_NAMES:
                                for ip in (False, True):
                                    for order in ORDERS:
                                        for nn in (NOISE_NAMES if noise else [None]):
                                            c = {"noise": noise, "login": login, "password": pw, "expected": exp, "major": major, "minor": minor,
                                                 "api_name": an, "invalid_password": ip, "order": order}
                                            if noise:
                                                c["noise_name"] = nn
                                            if order == "hc" and minor == 10 and pw is None:
                                                for tr_ in ("discreq", "garbage", "eof"):
                                                    yield {**c, "trailer": tr_}
                                            if order == "hc" and minor == 10 and pw is None and not ip and major in (1, 3):
                                                for via in (1, 2):
                                                    for ce in (None, "other", "dev"):
                                                        yield {**c, "exp_via": via, "ctor_expected": ce}
                                            if minor == 10 and pw is None and order in ("hc", "ch"):
                                                yield {**c, "unknown_fields": True}
                                            k = (major + len(an) + len(order) + (1 if ip else 0)) % 3
                                            if k == 1:
                                                c["cuts"] = [5, 17]
                                            elif k == 2:
                                                c["separate"] = True
                                            yield c
