"""C08 – closing a connection releases everything and silences it.

Layer S, vf.life engine.  Crash-point sweep: every close cause injected at every
loop iteration (start and end position) of the golden scenarios, with trailing
device bytes in the same chunk; plus generated multi-fault schedules.
Oracle (audit): at quiescence no armed timer, no unfinished task, every socket and
transport closed, every awaited operation finished; after the CLOSED write nothing
deliverable is written and no subscriber callback runs; three turns after a close
no timer bound to the connection (keepalive, pong, handshake, request timeout) is
armed; no raw exception escapes a loop callback.
"""
from __future__ import annotations

from vf import life
from vf.props._lifeprop import run_with

ID = "C08"
LEVEL = "fault_enumeration"
RULE = (
    "fault enumeration: 14 golden scenarios (plaintext|noise x login x {connect only; connect + subscription + request + "
    "keepalive tick + request; connect + request + disconnect()}, two with separate phases) are run once to count loop "
    "iterations N; then every cause in {disconnect(), force, cancel, EOF, reset, write failure raising|fatal, chunk "
    "[DisconnectRequest], [garbage], [0x01 preamble], [undecodable payload], [bad MAC], [unknown type], and 6 chunks with "
    "trailing frames after the closing one} is injected at the start and at the end of every iteration k<=N; quick also "
    "enumerates all ordered pairs of 6 causes over all iteration pairs of one scenario; plus generated schedules (see "
    "C05). non-trivial = the injected cause took effect before the scenario's natural end (a CLOSED write precedes the "
    "end of the main flow) . distinct = distinct case JSON."
)
ASSUMPTIONS = [
    "the simulated transport does not model a non-empty kernel send buffer (close with unflushed writes)",
    "a write handed to a transport whose socket the connection had already closed (connection_made racing a close) "
    "cannot reach the device: counted as dead_write, not judged",
    "a caller-side cancel is a close cause only while a connect phase runs; healthy sessions are ended by a final disconnect()",
]
EXHAUSTIVE_NOTE = "single-cause sweep over every loop iteration (2 positions) of all golden scenarios; pairwise sweep of one scenario"
BUDGET = {"quick": {"examples": 500, "shards": 6}, "thorough": {"examples": 12000, "shards": 16}}
FLOORS = {"close_before_main_end": 0.2}

PAIR = [
    {"do": "disconnect"}, {"do": "force"}, {"do": "eof"}, {"do": "chunk", "frames": ["discreq", "state"]},
    {"do": "chunk", "frames": ["garbage"]}, {"do": "writefail_raise"},
]
PAIR_THOROUGH = PAIR + [{"do": "reset"}, {"do": "cancel"}, {"do": "chunk", "frames": ["badproto", "state"]}, {"do": "writefail_fatal"}]


def run_case(case):
    res = run_with(ID, case)
    res.nontrivial = "close_before_main_end" in res.classes
    obs = res._obs
    res.info["dead_writes"] = obs.dead_writes
    return res


def strategy(tier):
    return life.case_strategy(tier)


def enumerated(tier):
    yield from life.single_fault_sweep()
    scs = life.golden_scenarios()
    if tier == "quick":
        yield from life.pair_fault_sweep(scs[4], PAIR)  # plaintext, login, full flow
    else:
        for sc in (scs[4], scs[10], scs[5], scs[12]):
            yield from life.pair_fault_sweep(sc, PAIR_THOROUGH)
    yield from life.hello_trailer_sweep()
    yield from life.slow_hello_disconnect_sweep()
    yield from life.stall_sweep([scs[4], scs[9]] if tier == "quick" else None)
    yield from life.sock_fault_sweep()
    yield from life.resolve_stage_sweep()
