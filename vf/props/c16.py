"""C16 – Bluetooth operations are matched by address and handle and never cross-talk.

Layer S, established session.  A case is a set of Bluetooth operations started at generated
instants (eager tasks) plus device chunks (1-3 messages per data_received call) at other
instants.  A per-operation reference model (written from the statement; validated against the
pinned tree) predicts outcome, completion instant, callback invocations and every frame the
device must see; afterwards nothing may be left subscribed or armed.
"""
from __future__ import annotations

import heapq

from hypothesis import strategies as st

from vf import wire
from vf.runner import CaseResult, HarnessError, Violation
from vf.sess import Session, handler_snapshot
from vf.simloop import START, IterationCap

ID = "C16"
LEVEL = "exploration"
RULE = (
    "1-5 operations from {gatt_read, gatt_read_descriptor, gatt_write(response T/F), gatt_write_descriptor(wait T/F), "
    "start_notify (+stop_notify | remove_callback), device_connect (3 request flavours), device_disconnect, pair, unpair, "
    "clear_cache, get_services} over addresses {A,B} x handles {0,1,2} with timeouts 1-3 s, started at even multiples of "
    "1/128 s; 0-10 device chunks at odd multiples (never tying with a timer), each 1-3 messages delivered in ONE "
    "data_received call, drawn with probability 1/2 'for a pending operation' (matching response | GATT error | connection "
    "change | same type foreign address | foreign handle | other response kind on the same address+handle) else arbitrary; "
    "plaintext|noise. non-trivial = >=2 operations overlap in time sharing an address or a response type AND >=1 message "
    "that must not affect a pending operation arrived while it was pending."
)
ASSUMPTIONS = [
    "reference model (DESIGN.md appendix B): an operation is decided by the first message of its own response kind / GATT error for its address+handle, or connection-state change for its address, after its request; everything else is ignored, including for its completion instant",
    "device_connect resolves on ANY connection-state message for its address; on timeout it unsubscribes, writes BluetoothDeviceRequest(DISCONNECT) at exactly t+timeout and raises TimeoutAPIError at the first connected=False for the address or disconnect_timeout later",
    "two operations waiting for the same response kind on the same address+handle are both completed by one response",
    "get_services matches GATT errors by address only (the request has no handle)",
]
BUDGET = {"quick": {"examples": 700, "shards": 8}, "thorough": {"examples": 10000, "shards": 16}}
FLOORS = {"outcome_ok": 0.2, "outcome_gatt_error": 0.05, "outcome_dropped": 0.1, "outcome_timeout": 0.1, "multi_message_chunk": 0.2}

A, B = 0x112233445566, 0x1122334455AA
ADDRS = [A, B]
G = 1 / 128
K_KEEPALIVE = 512.0

GATT_KINDS = {"read": "read", "read_desc": "read", "write": "write", "write_desc": "write", "notify": "notify"}
REQ_KINDS = {"pair": "pair", "unpair": "unpair", "clear": "clear"}


def V(sig, detail=""):
    return Violation(ID, sig, detail)


# ------------------------------------------------------------------ reference model
def model(case: dict) -> dict:
    """-> {"ops": {id: {"status", "t_end", "value", "cb": [...]}}, "writes": [(t, kind, addr, handle, extra)]}"""
    ops = {o["id"]: dict(o) for o in case["ops"]}
    q: list = []
    seq = 0
    for o in case["ops"]:
        heapq.heappush(q, (o["t"] * G, 0, seq, "op", o["id"]))
        seq += 1
    for ch in case["chunks"]:
        heapq.heappush(q, (ch["t"] * G, 0, seq, "chunk", ch))
        seq += 1
    for o in case["ops"]:
        for tu in o.get("early_unsub", []):
            heapq.heappush(q, (tu * G, 0, seq, "unsub", o["id"]))
            seq += 1
    for o in case["ops"]:
        if o.get("cancel_at") is not None:
            heapq.heappush(q, (o["cancel_at"] * G, 0, seq, "cancel", o["id"]))
            seq += 1
    st_: dict[str, dict] = {}
    writes: list = []
    noninterf = 0

    def finish(oid, status, t, value=None):
        s = st_[oid]
        if s["status"] is None:
            s["status"], s["t_end"], s["value"] = status, t, value
            s["pending"] = False

    while q:
        t, _, _, what, arg = heapq.heappop(q)
        if what == "op":
            o = ops[arg]
            k = o["kind"]
            s = st_[arg] = {"status": None, "t_end": None, "value": None, "pending": True, "phase": 1, "cb": [], "cb_on": False, "svcs": [], "data_on": False}
            if k in ("write", "write_desc") and not o.get("response", True):
                writes.append((t, k, o["addr"], o["handle"], "noresp"))
                finish(arg, "ok", t)
                continue
            writes.append((t, k, o["addr"], o["handle"] if k in GATT_KINDS else 0, o.get("flavour", "")))
            if k == "connect":
                s["cb_on"] = True
            if k == "notify":
                s["data_on"] = True
            to = 30.0 if k == "services" else float(o["timeout"])
            heapq.heappush(q, (t + to, 1, seq, "timeout", arg))
            seq += 1
        elif what == "cancel":
            # the caller gives the operation up (task cancellation).  Pending, or completed in this very instant (the
            # result never reaches the caller): it ends cancelled and leaves nothing subscribed.
            s = st_.get(arg)
            if s is not None and (s["pending"] or (s["t_end"] is not None and s["t_end"] == t and s["status"] is not None)):
                fresh = s["pending"]
                s["pending"] = False
                s["status"] = "cancelled" if fresh else s["status"] + "|cancelled"
                s["t_end"] = t
                s["cb_on"] = False
                s["data_on"] = False
        elif what == "unsub":
            # the application calls the function a finished connect handed back (any number of times: the later calls
            # are no-ops), while other operations are still in flight
            s = st_.get(arg)
            if s is not None and s["status"] == "ok" and s["t_end"] < t:
                s["cb_on"] = False
        elif what == "timeout":
            o, s = ops[arg], st_[arg]
            if not s["pending"] or s["phase"] != 1:
                continue
            if o["kind"] == "connect":
                s["phase"] = 2
                s["cb_on"] = False
                writes.append((t, "disconnect", o["addr"], 0, "after-connect-timeout"))
                heapq.heappush(q, (t + float(o["dtimeout"]), 1, seq, "dtimeout", arg))
                seq += 1
            else:
                if o["kind"] == "notify":
                    s["data_on"] = False
                finish(arg, "timeout", t)
        elif what == "dtimeout":
            if st_[arg]["pending"]:
                finish(arg, "timeout", t)
        else:  # chunk
            deferred_off = []  # a failed start_notify drops its data callback when its task resumes, i.e. after this chunk
            for m in arg["msgs"]:
                mk, ma, mh = m["k"], m.get("addr"), m.get("handle")
                for oid, s in st_.items():
                    o = ops[oid]
                    k = o["kind"]
                    # persistent callbacks (independent of the pending future)
                    if k == "connect" and s["cb_on"] and mk == "conn" and ma == o["addr"]:
                        s["cb"].append([bool(m["connected"]), m.get("mtu", 0), m.get("error", 0)])
                        if o.get("unsub_on_drop") and not m["connected"] and s["status"] == "ok" and s["t_end"] is not None and s["t_end"] < t:
                            # the application's state callback unsubscribes itself when told the device dropped (the
                            # function it got back from the finished connect call): nothing more for it, nobody else disturbed
                            s["cb_on"] = False
                    if k == "notify" and s["data_on"] and mk == "data" and ma == o["addr"] and mh == o["handle"]:
                        s["cb"].append(m.get("data", ""))
                    if not s["pending"]:
                        continue
                    hit = False
                    if k == "connect":
                        if mk == "conn" and ma == o["addr"]:
                            if s["phase"] == 1:
                                finish(oid, "ok", t)
                                hit = True
                            elif not m["connected"]:
                                finish(oid, "timeout", t)
                                hit = True
                    elif k == "disconnect":
                        if mk == "conn" and ma == o["addr"] and not m["connected"]:
                            finish(oid, "ok", t)
                            hit = True
                    elif k in GATT_KINDS:
                        if mk == "conn" and ma == o["addr"]:
                            finish(oid, "dropped", t)
                            hit = True
                        elif mk == "gatterr" and ma == o["addr"] and mh == o["handle"]:
                            finish(oid, "gatt_error", t, m.get("error", 0))
                            hit = True
                        elif mk == GATT_KINDS[k] and ma == o["addr"] and mh == o["handle"]:
                            finish(oid, "ok", t, m.get("data", "") if GATT_KINDS[k] == "read" else None)
                            hit = True
                        if hit and k == "notify" and s["status"] != "ok":
                            deferred_off.append(s)
                    elif k in REQ_KINDS:
                        if mk == "conn" and ma == o["addr"]:
                            finish(oid, "dropped", t)
                            hit = True
                        elif mk == REQ_KINDS[k] and ma == o["addr"]:
                            finish(oid, "ok", t, bool(m.get("flag", True)))
                            hit = True
                    elif k == "services":
                        if mk == "conn" and ma == o["addr"]:
                            finish(oid, "dropped", t)
                            hit = True
                        elif mk == "gatterr" and ma == o["addr"]:
                            finish(oid, "gatt_error", t, m.get("error", 0))
                            hit = True
                        elif mk == "svc" and ma == o["addr"]:
                            s["svcs"].append(m.get("h", 0))
                            hit = True
                        elif mk == "svcdone" and ma == o["addr"]:
                            finish(oid, "ok", t, list(s["svcs"]))
                            hit = True
                    if not hit and s["pending"] and mk != "other":
                        noninterf += 1
            for s in deferred_off:
                s["data_on"] = False
    return {"ops": st_, "writes": writes, "noninterfering": noninterf}


# ------------------------------------------------------------------ device messages
def build_msg(m: dict):
    from aioesphomeapi import api_pb2 as pb

    k = m["k"]
    a, h = m.get("addr", 0), m.get("handle", 0)
    if k == "read":
        return pb.BluetoothGATTReadResponse(address=a, handle=h, data=bytes.fromhex(m.get("data", "")))
    if k == "write":
        return pb.BluetoothGATTWriteResponse(address=a, handle=h)
    if k == "notify":
        return pb.BluetoothGATTNotifyResponse(address=a, handle=h)
    if k == "gatterr":
        return pb.BluetoothGATTErrorResponse(address=a, handle=h, error=m.get("error", 0))
    if k == "conn":
        return pb.BluetoothDeviceConnectionResponse(address=a, connected=bool(m["connected"]), mtu=m.get("mtu", 0), error=m.get("error", 0))
    if k == "data":
        return pb.BluetoothGATTNotifyDataResponse(address=a, handle=h, data=bytes.fromhex(m.get("data", "")))
    if k == "pair":
        return pb.BluetoothDevicePairingResponse(address=a, paired=bool(m.get("flag", True)), error=m.get("error", 0))
    if k == "unpair":
        return pb.BluetoothDeviceUnpairingResponse(address=a, success=bool(m.get("flag", True)), error=m.get("error", 0))
    if k == "clear":
        return pb.BluetoothDeviceClearCacheResponse(address=a, success=bool(m.get("flag", True)), error=m.get("error", 0))
    if k == "svc":
        r = pb.BluetoothGATTGetServicesResponse(address=a)
        s = r.services.add()
        s.uuid.extend([1, m.get("h", 0)])
        s.handle = m.get("h", 0)
        return r
    if k == "svcdone":
        return pb.BluetoothGATTGetServicesDoneResponse(address=a)
    if k == "other":
        return pb.SwitchStateResponse(key=1, state=True)
    raise HarnessError(f"unknown message kind {k}")


def start_op(cli, o: dict, rec: dict):
    k, a = o["kind"], o["addr"]
    h, to = o.get("handle", 0), float(o.get("timeout", 2))
    if k == "read":
        return cli.bluetooth_gatt_read(a, h, timeout=to)
    if k == "read_desc":
        return cli.bluetooth_gatt_read_descriptor(a, h, timeout=to)
    if k == "write":
        return cli.bluetooth_gatt_write(a, h, b"\x01\x02", bool(o.get("response", True)), timeout=to)
    if k == "write_desc":
        return cli.bluetooth_gatt_write_descriptor(a, h, b"\x03", timeout=to, wait_for_response=bool(o.get("response", True)))
    if k == "notify":
        return cli.bluetooth_gatt_start_notify(a, h, lambda hh, data: rec["cb"].append(bytes(data).hex()) if hh == h else rec["cb"].append(f"WRONG-HANDLE-{hh}"), timeout=to)
    if k == "connect":
        fl = o.get("flavour", "v1")
        def on_state(c, mtu, err):
            rec["cb"].append([c, mtu, err])
            if o.get("unsub_on_drop") and not c and not rec.get("unsubbed"):
                r = rec["results"].get(o["id"])
                if r and r[0] == "ok":
                    rec["unsubbed"] = True
                    r[1]()

        return cli.bluetooth_device_connect(
            a, on_state, timeout=to, disconnect_timeout=float(o["dtimeout"]),
            feature_flags=(1 << 2) if fl == "v3nocache" else 0, has_cache=(fl == "v3cache"), address_type=o.get("address_type"))
    if k == "disconnect":
        return cli.bluetooth_device_disconnect(a, timeout=to)
    if k == "pair":
        return cli.bluetooth_device_pair(a, timeout=to)
    if k == "unpair":
        return cli.bluetooth_device_unpair(a, timeout=to)
    if k == "clear":
        return cli.bluetooth_device_clear_cache(a, timeout=to)
    if k == "services":
        return cli.bluetooth_gatt_get_services(a)
    raise HarnessError(k)


def classify_exc(e: BaseException) -> tuple[str, object]:
    n = type(e).__name__
    if n == "TimeoutAPIError":
        return "timeout", None
    if n == "BluetoothGATTAPIError":
        return "gatt_error", e.error.error
    if n == "BluetoothConnectionDroppedError":
        return "dropped", None
    if n == "CancelledError":
        return "cancelled", None
    return f"raised:{n}", repr(e)[:200]


def decode_write(t: int, p: bytes):
    """(kind, addr, handle, extra) of a frame the device decoded (ids from descriptors)."""
    from aioesphomeapi import api_pb2 as pb

    cls = wire.ids()[0].get(t)
    m = cls.FromString(p)
    n = cls.__name__
    if n == "BluetoothDeviceRequest":
        rt = m.request_type
        kind = {0: "connect", 4: "connect", 5: "connect", 1: "disconnect", 2: "pair", 3: "unpair", 6: "clear"}.get(rt, f"req{rt}")
        extra = {0: "v1", 4: "v3cache", 5: "v3nocache"}.get(rt, "")
        if kind == "connect":
            extra += f":{int(m.has_address_type)}:{m.address_type}"
        return kind, m.address, 0, extra
    if n == "BluetoothGATTReadRequest":
        return "read", m.address, m.handle, ""
    if n == "BluetoothGATTReadDescriptorRequest":
        return "read_desc", m.address, m.handle, ""
    if n == "BluetoothGATTWriteRequest":
        return "write", m.address, m.handle, f"{int(m.response)}:{m.data.hex()}"
    if n == "BluetoothGATTWriteDescriptorRequest":
        return "write_desc", m.address, m.handle, m.data.hex()
    if n == "BluetoothGATTNotifyRequest":
        return ("notify" if m.enable else "notify_off"), m.address, m.handle, ""
    if n == "BluetoothGATTGetServicesRequest":
        return "services", m.address, 0, ""
    return n, 0, 0, ""


def run_case(case: dict) -> CaseResult:
    res = CaseResult()
    s = Session(noise=bool(case.get("noise")), keepalive=K_KEEPALIVE, auto=set())
    env = s.env
    recs: dict[str, dict] = {o["id"]: {"cb": [], "results": env.results} for o in case["ops"]}
    M = model(case)
    t_last = max([o["t"] * G + (30.0 if o["kind"] == "services" else float(o.get("timeout", 2))) + float(o.get("dtimeout", 0)) for o in case["ops"]] + [c["t"] * G for c in case["chunks"]] + [0]) + 1.0
    base = {}

    def then(sess: Session):
        t0 = sess.t0
        base["handlers"] = handler_snapshot(sess.conn)
        base["timers"] = len(env.loop.armed_timers())
        for o in case["ops"]:
            env.loop.sim_at(t0 + o["t"] * G, lambda o=o: env.spawn(o["id"], start_op(sess.cli, o, recs[o["id"]])))
        for o in case["ops"]:
            for tu in o.get("early_unsub", []):
                def early(o=o):
                    r = env.results.get(o["id"])
                    if r and r[0] == "ok":
                        r[1]()
                env.loop.sim_at(t0 + tu * G, early)
        for ch in case["chunks"]:
            def feed(ch=ch):
                tr = sess.dsess.transport
                if not tr.closing:
                    env.log("chunk", n=len(ch["msgs"]))
                    tr.feed(b"".join(sess.dsess.encode(build_msg(m)) for m in ch["msgs"]))
            env.loop.sim_at(t0 + ch["t"] * G, feed)
        for o in case["ops"]:  # (after the chunks: at a shared instant the answer is processed first, then the caller cancels)
            if o.get("cancel_at") is not None:
                env.loop.sim_at(t0 + o["cancel_at"] * G, env.cancel, o["id"])

        async def cleanup():
            # call what each finished operation handed back
            for o in case["ops"]:
                r = env.results.get(o["id"])
                if r and r[0] == "ok" and o["kind"] == "connect":
                    r[1]()
                elif r and r[0] == "ok" and o["kind"] == "notify":
                    stop, remove = r[1]
                    if o.get("end", "stop") == "stop":
                        await stop()
                    else:
                        remove()
            env.log("cleanup_done")
            base["handlers_after"] = handler_snapshot(sess.conn)
            base["timers_after"] = len(env.loop.armed_timers())
            base["state_after"] = sess.conn.connection_state.name
            await sess.cli.disconnect(force=True)

        env.loop.sim_at(t0 + t_last, lambda: env.spawn("cleanup", cleanup()))
        if len(case["ops"]) == 1 and case["ops"][0].get("cancel_at") is not None:
            # "every finished operation leaves nothing subscribed" -- judged right after the caller's cancellation took
            # effect, not only at the end of the history (by then a detached leftover may have timed out by itself)
            o1 = case["ops"][0]

            def after_cancel():
                r = env.results.get(o1["id"])
                if r is not None and r[0] == "exc" and sess.conn.connection_state.name == "CONNECTED":
                    base["handlers_post_cancel"] = handler_snapshot(sess.conn)
                    base["timers_post_cancel"] = len(env.loop.armed_timers())

            env.loop.sim_at(t0 + (o1["cancel_at"] + 2) * G, after_cancel)

    s.start(then)
    env.loop.horizon = START + 2000
    try:
        s.run()
    except IterationCap as e:
        s.close()
        raise HarnessError(f"C16: {e}") from e
    if s.t0 is None or "handlers_after" not in base:
        s.close()
        raise HarnessError(f"C16: scenario did not complete: {env.results.get('main')} {env.results.get('cleanup')}")
    t0 = s.t0
    classes: set[str] = set()
    # ---- outcomes
    for o in case["ops"]:
        oid = o["id"]
        exp = M["ops"][oid]
        r = env.results.get(oid)
        label = f"{o['kind']}@{'A' if o['addr'] == A else 'B'}/{o.get('handle', '-')}"
        if r is None:
            res.violations.append(V(f"c16:{o['kind']}:never-finished", f"{label} op {oid}: still pending at the end; expected {exp['status']} at {exp['t_end']}"))
            continue
        if r[0] == "ok":
            got, val = "ok", r[1]
        else:
            got, val = classify_exc(r[1])
        t_end = r[3] - t0
        classes.add("outcome_" + (got if not got.startswith("raised") else "raised"))
        if "|" in (exp["status"] or ""):
            # completion and the caller's cancellation fall into the same instant: either outcome, nothing left behind
            if got not in exp["status"].split("|"):
                res.violations.append(V(f"c16:{o['kind']}:outcome:{got.split(':')[0]}-expected-{exp['status']}", f"{label} op {oid}"))
            continue
        if got != exp["status"]:
            res.violations.append(V(f"c16:{o['kind']}:outcome:{got.split(':')[0] if not got.startswith('raised') else got}-expected-{exp['status']}", f"{label} op {oid}: got {got} {val if got.startswith('raised') else ''} at {t_end}; expected {exp['status']} at {exp['t_end']}"))
            continue
        if abs(t_end - exp["t_end"]) > 1e-9:
            res.violations.append(V(f"c16:{o['kind']}:completion-time", f"{label} op {oid}: {got} at {t_end}, expected at {exp['t_end']} (delayed or hastened by a foreign message?)"))
        if got == "gatt_error" and val != exp["value"]:
            res.violations.append(V(f"c16:{o['kind']}:wrong-error", f"{label}: error {val}, expected {exp['value']}"))
        if got == "ok":
            if GATT_KINDS.get(o["kind"]) == "read" and bytes(val).hex() != exp["value"]:
                res.violations.append(V(f"c16:{o['kind']}:wrong-data", f"{label}: data {bytes(val).hex()}, expected {exp['value']}"))
            if o["kind"] in REQ_KINDS:
                flag = getattr(val, "paired", getattr(val, "success", None))
                if val.address != o["addr"] or flag != exp["value"]:
                    res.violations.append(V(f"c16:{o['kind']}:wrong-result", f"{label}: {val!r}"))
            if o["kind"] == "services":
                hs = [sv.handle for sv in val.services]
                if val.address != o["addr"] or hs != exp["value"]:
                    res.violations.append(V("c16:services:wrong-result", f"{label}: services {hs} expected {exp['value']}"))
        if recs[oid]["cb"] != exp["cb"]:
            res.violations.append(V(f"c16:{o['kind']}:callback-invocations", f"{label} op {oid}: callback got {recs[oid]['cb']}, expected {exp['cb']}"))
    # ---- frames the device saw
    c0 = next(e["seq"] for e in env.trace if e["kind"] == "connected")
    c1 = next(e["seq"] for e in env.trace if e["kind"] == "cleanup_done")
    got_w = []
    for e in env.trace:
        if e["kind"] == "rx" and c0 < e["seq"]:
            k, a, h, extra = decode_write(e["type"], e["payload"])
            if e["seq"] > c1 and k != "notify_off":
                continue
            if k == "notify_off":
                continue
            got_w.append((round(e["t"] - t0, 9), k, a, h))
    exp_w = sorted((round(t, 9), k, a, h) for t, k, a, h, _ in M["writes"])
    if sorted(got_w) != exp_w:
        miss = [w for w in exp_w if w not in got_w]
        extra = [w for w in got_w if w not in exp_w]
        sig = "missing-disconnect-after-connect-timeout" if any(w[1] == "disconnect" for w in miss) else ("missing" if miss else "unexpected")
        res.violations.append(V(f"c16:frames:{sig}", f"missing {miss[:4]} unexpected {extra[:4]}"))
    # connect request flavour / address-type fields (multiset per instant and address)
    got_c = sorted((round(e["t"] - t0, 9), d[1], d[3]) for e in env.trace if e["kind"] == "rx" and c0 < e["seq"] < c1 for d in [decode_write(e["type"], e["payload"])] if d[0] == "connect")
    exp_c = sorted((round(o["t"] * G, 9), o["addr"], f"{o.get('flavour', 'v1')}:{int(o.get('address_type') is not None)}:{o.get('address_type') or 0}") for o in case["ops"] if o["kind"] == "connect")
    if got_c != exp_c:
        res.violations.append(V("c16:connect:request-fields", f"requests {got_c}, expected {exp_c}"))
    # notify stop frames
    offs = [(decode_write(e["type"], e["payload"])) for e in env.trace if e["kind"] == "rx" and e["seq"] > c0]
    n_off = sum(1 for k, *_ in offs if k == "notify_off")
    want_off = sum(1 for o in case["ops"] if o["kind"] == "notify" and M["ops"][o["id"]]["status"] == "ok" and o.get("end", "stop") == "stop")
    if n_off != want_off:
        res.violations.append(V("c16:notify:stop-frames", f"{n_off} NotifyRequest(enable=False) frames, expected {want_off}"))
    # ---- leftovers
    if base["state_after"] != "CONNECTED":
        res.violations.append(V("c16:session-lost", base["state_after"]))
    if base["handlers_after"] != base["handlers"]:
        diff = {k: (base["handlers"].get(k, 0), base["handlers_after"].get(k, 0)) for k in set(base["handlers"]) | set(base["handlers_after"]) if base["handlers"].get(k, 0) != base["handlers_after"].get(k, 0)}
        res.violations.append(V("c16:leftover-subscription", f"handler counts (before, after): {diff}"))
    if "handlers_post_cancel" in base and M["ops"][case["ops"][0]["id"]]["status"] in ("cancelled",) and not res.violations:
        if base["handlers_post_cancel"] != base["handlers"]:
            res.violations.append(V("c16:leftover-subscription:right-after-cancel", f"handlers right after the cancelled {case['ops'][0]['kind']} ended: {base['handlers_post_cancel']} vs before {base['handlers']}"))
        elif base["timers_post_cancel"] != base["timers"]:
            res.violations.append(V("c16:leftover-timer:right-after-cancel", f"{base['timers_post_cancel']} timers armed right after the cancelled operation ended, {base['timers']} before it"))
    if base["timers_after"] != base["timers"]:
        res.violations.append(V("c16:leftover-timer", f"{base['timers_after']} timers armed after all operations ended, {base['timers']} before"))
    # ---- classification
    if any(len(c["msgs"]) > 1 for c in case["chunks"]):
        classes.add("multi_message_chunk")
    overlap = False
    ops = case["ops"]
    for i in range(len(ops)):
        for j in range(i + 1, len(ops)):
            a_, b_ = ops[i], ops[j]
            ea, eb = M["ops"][a_["id"]]["t_end"], M["ops"][b_["id"]]["t_end"]
            if a_["t"] * G < eb and b_["t"] * G < ea and (a_["addr"] == b_["addr"] or GATT_KINDS.get(a_["kind"], a_["kind"]) == GATT_KINDS.get(b_["kind"], b_["kind"])):
                overlap = True
    if overlap:
        classes.add("overlap")
    if M["noninterfering"]:
        classes.add("foreign_message_while_pending")
    res.nontrivial = overlap and M["noninterfering"] > 0
    res.classes = sorted(classes | ({"noise"} if case.get("noise") else set()))
    res.info = {"ops": [(o["kind"], M["ops"][o["id"]]["status"]) for o in ops], "chunks": len(case["chunks"])}
    s.close()
    return res


# ------------------------------------------------------------------ generators
OP_KINDS = ["read", "read", "read_desc", "write", "write", "write_desc", "notify", "notify", "connect", "connect", "disconnect", "pair", "unpair", "clear", "services"]


@st.composite
def _case(draw, tier):
    n = draw(st.integers(1, 5))
    ops = []
    for i in range(n):
        k = draw(st.sampled_from(OP_KINDS))
        o = {"id": f"op{i}", "kind": k, "addr": draw(st.sampled_from(ADDRS + [A])), "t": 2 * draw(st.integers(1, 200)), "timeout": draw(st.sampled_from([1, 2, 3]))}
        if k in GATT_KINDS:
            o["handle"] = draw(st.sampled_from([1, 1, 2, 0]))
        if k in ("write", "write_desc"):
            o["response"] = draw(st.integers(0, 3)) != 0
        if k == "notify":
            o["end"] = draw(st.sampled_from(["stop", "remove"]))
        if k == "connect":
            o["dtimeout"] = draw(st.sampled_from([1, 2, 0]))
            o["flavour"] = draw(st.sampled_from(["v1", "v3cache", "v3nocache"]))
            o["address_type"] = draw(st.sampled_from([None, 0, 1]))
            if draw(st.booleans()):
                o["unsub_on_drop"] = True
            if draw(st.integers(0, 2)) == 0:
                tu = o["t"] + 2 * draw(st.integers(1, 150))
                o["early_unsub"] = [tu] + ([tu + 2 * draw(st.integers(0, 60))] if draw(st.booleans()) else [])
        ops.append(o)
    horizon = max(o["t"] for o in ops) + 128 * 5
    chunks = []
    used = set()
    for _ in range(draw(st.integers(0, 10))):
        msgs = []
        for _ in range(draw(st.sampled_from([1, 1, 2, 3]))):
            msgs.append(draw(_message(ops)))
        if draw(st.booleans()) and ops:
            o = draw(st.sampled_from(ops))  # shortly after the request / around its timeout
            t = o["t"] + draw(st.sampled_from([1, 3, 9, 65, 127, o["timeout"] * 128 - 1, o["timeout"] * 128 + 1, o["timeout"] * 128 + 65]))
        else:
            t = 2 * draw(st.integers(0, horizon // 2)) + 1
        while t in used:
            t += 2
        used.add(t)
        chunks.append({"t": t, "msgs": msgs})
    chunks.sort(key=lambda c: c["t"])
    for o in ops:
        if draw(st.integers(0, 4)) == 2:
            # the caller gives up: at the instant of a chunk (its answer may be in it) or anywhere
            later = [c["t"] for c in chunks if c["t"] >= o["t"]]
            o["cancel_at"] = draw(st.sampled_from(later)) if later and draw(st.booleans()) else o["t"] + draw(st.integers(0, 400))
    return {"noise": draw(st.integers(0, 3)) == 0, "ops": ops, "chunks": chunks}


@st.composite
def _message(draw, ops):
    # status codes: the ones with a description, and the many legal ones without (ATT 0x12, HCI 0x3B, negative, large)
    err = draw(st.one_of(st.sampled_from([1, 133, 0, 255]), st.sampled_from([0x12, 0x3B, 19, 34, 62, 8, 13, 7, 256, -1, -2, 2**31 - 1, -(2**31)]), st.integers(-130, 300)))
    if ops and draw(st.booleans()):
        o = draw(st.sampled_from(ops))
        a, h = o["addr"], o.get("handle", 1)
        other_a = B if a == A else A
        other_h = 2 if h == 1 else 1
        own = {"read": "read", "read_desc": "read", "write": "write", "write_desc": "write", "notify": "notify", "pair": "pair", "unpair": "unpair",
               "clear": "clear", "services": draw(st.sampled_from(["svc", "svcdone", "svcdone"])), "connect": "conn", "disconnect": "conn"}[o["kind"]]
        variant = draw(st.sampled_from(["match", "match", "match", "gatterr", "conn", "foreign_addr", "foreign_handle", "other_kind", "data"]))
        if variant == "match":
            m = {"k": own, "addr": a, "handle": h}
        elif variant == "gatterr":
            m = {"k": "gatterr", "addr": a, "handle": draw(st.sampled_from([h, h, other_h, 0])), "error": err}
        elif variant == "conn":
            m = {"k": "conn", "addr": draw(st.sampled_from([a, a, other_a])), "connected": draw(st.booleans()), "mtu": 23, "error": err}
        elif variant == "foreign_addr":
            m = {"k": own, "addr": other_a, "handle": h}
        elif variant == "foreign_handle":
            m = {"k": own, "addr": a, "handle": draw(st.sampled_from([other_h, 0]))}
        elif variant == "other_kind":
            m = {"k": draw(st.sampled_from(["read", "write", "notify", "pair", "unpair", "clear", "svcdone"])), "addr": a, "handle": h}
        else:
            m = {"k": "data", "addr": a, "handle": draw(st.sampled_from([h, other_h])), "data": draw(st.sampled_from(["", "aa", "0102"]))}
    else:
        k = draw(st.sampled_from(["read", "write", "notify", "gatterr", "conn", "data", "pair", "unpair", "clear", "svc", "svcdone", "other"]))
        m = {"k": k, "addr": draw(st.sampled_from(ADDRS)), "handle": draw(st.sampled_from([0, 1, 2]))}
    if m["k"] == "read":
        m["data"] = draw(st.sampled_from(["", "00", "cafe"]))
    if m["k"] == "conn":
        m.setdefault("connected", draw(st.booleans()))
        m.setdefault("mtu", 23)
        m.setdefault("error", 0)
    if m["k"] == "gatterr":
        m.setdefault("error", err)
    if m["k"] in ("pair", "unpair", "clear"):
        m["flag"] = draw(st.booleans())
    if m["k"] == "svc":
        m["h"] = draw(st.integers(1, 9))
    return m


def strategy(tier):
    return _case(tier)


def enumerated(tier):
    # pairs of GATT operations of every two kinds on the same address+handle, answered in both orders, in one or two chunks
    kinds = ["read", "read_desc", "write", "write_desc", "notify"]
    own = GATT_KINDS
    for k1 in kinds:
        for k2 in kinds:
            for order in (0, 1):
                for one_chunk in (False, True):
                    ops = [{"id": "op0", "kind": k1, "addr": A, "handle": 1, "t": 2, "timeout": 2, "end": "stop"}, {"id": "op1", "kind": k2, "addr": A, "handle": 1, "t": 4, "timeout": 2, "end": "remove"}]
                    ms = [{"k": own[k1], "addr": A, "handle": 1, "data": "01"}, {"k": own[k2], "addr": A, "handle": 1, "data": "02"}]
                    if order:
                        ms.reverse()
                    chunks = [{"t": 9, "msgs": ms}] if one_chunk else [{"t": 9, "msgs": ms[:1]}, {"t": 201, "msgs": ms[1:]}]
                    yield {"noise": False, "ops": ops, "chunks": chunks}
    # every operation alone x every single message kind (matching / foreign), and silence
    singles = [{"k": "read", "data": "ab"}, {"k": "write"}, {"k": "notify"}, {"k": "gatterr", "error": 5}, {"k": "conn", "connected": True, "mtu": 23, "error": 0},
               {"k": "conn", "connected": False, "mtu": 0, "error": 8}, {"k": "data", "data": "01"}, {"k": "pair", "flag": True}, {"k": "unpair", "flag": False},
               {"k": "clear", "flag": True}, {"k": "svc", "h": 3}, {"k": "svcdone"}, {"k": "other"}]
    for k in sorted(set(OP_KINDS)):
        base = {"id": "op0", "kind": k, "addr": A, "t": 2, "timeout": 1, "handle": 1, "dtimeout": 1, "flavour": "v1", "address_type": None, "end": "stop"}
        yield {"noise": False, "ops": [base], "chunks": []}
        for m in singles:
            for addr, handle in ((A, 1), (B, 1), (A, 2), (A, 0)):
                mm = {**m, "addr": addr, "handle": handle}
                yield {"noise": False, "ops": [base], "chunks": [{"t": 9, "msgs": [mm]}]}
                # the same message followed, in the same chunk, by a connection change for the address
                yield {"noise": handle == 2, "ops": [base], "chunks": [{"t": 9, "msgs": [mm, {"k": "conn", "addr": A, "connected": False, "mtu": 0, "error": 19}]}]}
    # addresses are uint64 on the wire: beyond 48 bits, every failing ending
    for big in (2**48, 2**48 + 0xAABBCC, 2**63 + 1, 2**64 - 1):
        yield {"noise": False, "ops": [{"id": "op0", "kind": "read", "addr": big, "t": 2, "timeout": 1, "handle": 1, "dtimeout": 1, "flavour": "v1", "address_type": None, "end": "stop"}],
               "chunks": [{"t": 9, "msgs": [{"k": "gatterr", "addr": big, "handle": 1, "error": 5}]}]}
        yield {"noise": False, "ops": [{"id": "op0", "kind": "write", "addr": big, "t": 2, "timeout": 1, "handle": 1, "dtimeout": 1, "flavour": "v1", "address_type": None, "end": "stop", "response": True}],
               "chunks": [{"t": 9, "msgs": [{"k": "conn", "addr": big, "connected": False, "mtu": 0, "error": 8}]}]}
        yield {"noise": False, "ops": [{"id": "op0", "kind": "notify", "addr": big, "t": 2, "timeout": 1, "handle": 1, "dtimeout": 1, "flavour": "v1", "address_type": None, "end": "stop"}], "chunks": []}
        for fl in ("v1", "v3cache"):
            yield {"noise": False, "ops": [{"id": "op0", "kind": "connect", "addr": big, "t": 2, "timeout": 1, "dtimeout": 1, "flavour": fl, "address_type": 1 if fl == "v1" else None}], "chunks": []}
            yield {"noise": False, "ops": [{"id": "op0", "kind": "connect", "addr": big, "t": 2, "timeout": 2, "dtimeout": 1, "flavour": fl, "address_type": 1 if fl == "v1" else None}],
                   "chunks": [{"t": 9, "msgs": [{"k": "conn", "addr": big, "connected": False, "mtu": 0, "error": 8}]}]}
    # every status code -130..300 (described or not) as a GATT error for a pending read and as a drop reason for a pending write
    for code in list(range(-130, 301)) + [2**31 - 1, -(2**31)]:
        yield {"noise": False, "ops": [{"id": "op0", "kind": "read", "addr": A, "t": 2, "timeout": 1, "handle": 1, "dtimeout": 1, "flavour": "v1", "address_type": None, "end": "stop"}],
               "chunks": [{"t": 9, "msgs": [{"k": "gatterr", "addr": A, "handle": 1, "error": code}]}]}
        yield {"noise": False, "ops": [{"id": "op0", "kind": "write", "addr": A, "t": 2, "timeout": 1, "handle": 1, "dtimeout": 1, "flavour": "v1", "address_type": None, "end": "stop", "response": True}],
               "chunks": [{"t": 9, "msgs": [{"k": "conn", "addr": A, "connected": False, "mtu": 0, "error": code}]}]}
    # an established device connection whose state callback unsubscribes itself when the device drops, while n GATT
    # calls on that address (and one on another address) are pending: each of them gets its own outcome
    for n in (1, 2, 5):
        for noise in (False, True):
            conn = {"id": "op0", "kind": "connect", "addr": A, "t": 2, "timeout": 2, "dtimeout": 2, "flavour": "v3cache", "address_type": None, "unsub_on_drop": True}
            gatt = [{"id": f"op{1 + i}", "kind": ("read", "write", "notify", "read_desc", "write_desc")[i % 5], "addr": A, "handle": 1 + i % 2, "t": 40 + 2 * i, "timeout": 3, "response": True, "end": "stop"} for i in range(n)]
            other = {"id": "op9", "kind": "read", "addr": B, "handle": 1, "t": 40, "timeout": 3}
            yield {"noise": noise, "ops": [conn] + gatt + [other], "chunks": [
                {"t": 10, "msgs": [{"k": "conn", "addr": A, "connected": True, "mtu": 23, "error": 0}]},
                {"t": 80, "msgs": [{"k": "conn", "addr": A, "connected": False, "mtu": 0, "error": 8}, {"k": "read", "addr": B, "handle": 1, "data": "0a"}]},
                {"t": 100, "msgs": [{"k": "conn", "addr": A, "connected": False, "mtu": 0, "error": 8}]}]}
    # the caller cancels an operation: before any answer, in the instant of its answer, after it
    for kind in ("connect", "notify", "read", "write", "pair", "services", "disconnect"):
        ans = {"connect": {"k": "conn", "addr": A, "connected": True, "mtu": 23, "error": 0}, "notify": {"k": "notify", "addr": A, "handle": 1}, "read": {"k": "read", "addr": A, "handle": 1, "data": "0c"},
               "write": {"k": "write", "addr": A, "handle": 1}, "pair": {"k": "pair", "addr": A, "flag": True, "error": 0}, "services": {"k": "svcdone", "addr": A}, "disconnect": {"k": "conn", "addr": A, "connected": False, "mtu": 0, "error": 0}}[kind]
        for ct in (9, 21, 35):
            o = {"id": "op0", "kind": kind, "addr": A, "handle": 1, "t": 2, "timeout": 2, "dtimeout": 2, "flavour": "v1", "address_type": 1, "response": True, "end": "stop", "cancel_at": ct}
            later = [{"t": 61, "msgs": [{"k": "data", "addr": A, "handle": 1, "data": "aa"}, {"k": "conn", "addr": A, "connected": False, "mtu": 0, "error": 1}]}]
            yield {"noise": False, "ops": [o], "chunks": [{"t": 21, "msgs": [ans]}] + later}
    # the answer arrives in the very instant of the deadline (socket data is processed before the timers of an instant):
    # an accepted answer is the outcome, the deadline finds nothing left to do
    for kind, ans in (("read", {"k": "read", "addr": A, "handle": 1, "data": "0c"}), ("write", {"k": "write", "addr": A, "handle": 1}), ("read", {"k": "gatterr", "addr": A, "handle": 1, "error": 5}),
                      ("notify", {"k": "notify", "addr": A, "handle": 1}), ("write", {"k": "conn", "addr": A, "connected": False, "mtu": 0, "error": 8}), ("services", {"k": "svcdone", "addr": A})):
        for dt in (129, 130, 131):
            o = {"id": "op0", "kind": kind, "addr": A, "handle": 1, "t": 2, "timeout": 1, "dtimeout": 1, "flavour": "v1", "address_type": None, "response": True, "end": "stop"}
            yield {"noise": False, "ops": [o], "chunks": [{"t": dt, "msgs": [ans]}]}
    # a connect that has timed out and is now waiting for the clean-up disconnect to be confirmed: the caller gives up
    for fl in ("v1", "v3cache"):
        for ct in (259, 300, 500, 513):
            o = {"id": "op0", "kind": "connect", "addr": A, "t": 2, "timeout": 2, "dtimeout": 2, "flavour": fl, "address_type": 1 if fl == "v1" else None, "cancel_at": ct}
            yield {"noise": False, "ops": [o], "chunks": []}
            yield {"noise": False, "ops": [o], "chunks": [{"t": ct + 20, "msgs": [{"k": "conn", "addr": A, "connected": False, "mtu": 0, "error": 0}]}]}
    # the function a finished connect handed back is called, and called again, while exactly one other operation
    # listens on the same message types
    for noise in (False, True):
        for kind2 in ("read", "write", "notify", "disconnect", "pair"):
            conn = {"id": "op0", "kind": "connect", "addr": A, "t": 2, "timeout": 2, "dtimeout": 2, "flavour": "v1", "address_type": 1, "early_unsub": [30, 50, 60]}
            o2 = {"id": "op1", "kind": kind2, "addr": B, "handle": 1, "t": 40, "timeout": 3, "response": True, "end": "remove"}
            fin = {"read": {"k": "read", "addr": B, "handle": 1, "data": "0b"}, "write": {"k": "write", "addr": B, "handle": 1}, "notify": {"k": "notify", "addr": B, "handle": 1},
                   "disconnect": {"k": "conn", "addr": B, "connected": False, "mtu": 0, "error": 0}, "pair": {"k": "pair", "addr": B, "flag": True, "error": 0}}[kind2]
            yield {"noise": noise, "ops": [conn, o2], "chunks": [{"t": 10, "msgs": [{"k": "conn", "addr": A, "connected": True, "mtu": 23, "error": 0}]},
                                                                {"t": 70, "msgs": [{"k": "conn", "addr": B, "connected": False, "mtu": 0, "error": 8}] if kind2 in ("read", "write", "notify", "pair") else [fin]},
                                                                {"t": 90, "msgs": [fin]}]}
    for fl in ("v1", "v3cache"):
        yield {"noise": False, "ops": [{"id": "op0", "kind": "connect", "addr": A, "t": 2, "timeout": 1, "dtimeout": 0, "flavour": fl, "address_type": None}], "chunks": []}
    # connect timeout phase 2: disconnect answered / not answered / answered for the other address
    for second in (None, {"k": "conn", "addr": A, "connected": False}, {"k": "conn", "addr": B, "connected": False}, {"k": "conn", "addr": A, "connected": True}):
        for fl in ("v1", "v3cache", "v3nocache"):
            o = {"id": "op0", "kind": "connect", "addr": A, "t": 2, "timeout": 1, "dtimeout": 2, "flavour": fl, "address_type": 1 if fl == "v1" else None}
            yield {"noise": False, "ops": [o], "chunks": ([{"t": 2 + 128 + 65, "msgs": [{**second, "mtu": 0, "error": 0}]}] if second else [])}
