"""C20 – address resolution order and fallbacks; zeroconf instances are owned correctly.

Layer S (virtual loop, fake zeroconf layer vf/zcfake.py, scripted OS resolver).  A case is a
sequence of operations on ONE ZeroconfManager (or none): resolve(address list), "library needs an
instance" (get), "library is done" (close), the application supplying its instance, and a
ReconnectLogic start/stop round on an APIClient.  Oracles: (a) a reference decision tree for the
returned address list / error and for which lookups may happen at all; (b) an ownership ledger:
a supplied instance is never closed; every instance the library created is closed exactly once
when the operation that needed it is over, and none is open at the end.
"""
from __future__ import annotations

import asyncio
import socket

from hypothesis import strategies as st

from vf import zcfake
from vf.runner import CaseResult, HarnessError, Violation
from vf.simloop import START, IterationCap
from vf.simnet import D, Env, make_client

ID = "C20"
LEVEL = "exploration"
RULE = (
    "1-6 manager operations; resolve ops carry 1-4 addresses from {IPv4 literal, IPv6 literal, IPv6 with numeric scope, "
    "bare name, x.local, x.local., FQDN}; per mDNS name an outcome {v4 list, v6 list, both, none, raises}; per OS-resolved "
    "host an outcome {v4/v6 results, empty, OSError}; manager in {none passed, empty, application-supplied AsyncZeroconf, "
    "supplied Zeroconf}; other ops: get (library needs an instance), close, supply (application sets its instance after the "
    "library closed its own), ReconnectLogic start/stop on a client with a refused or successful connect. Enumerated: the "
    "full outcome matrix for one and two hosts of every form. non-trivial = >=2 hosts of different forms, or a fallback "
    "taken, or an error path / manager history involving a supplied instance."
)
ASSUMPTIONS = [
    "mDNS is reached only through zeroconf's AsyncServiceInfo.async_request / AsyncZeroconf, replaced inside aioesphomeapi by recording fakes (third-party boundary); the OS resolver is loop.getaddrinfo",
    "an OS-resolver OSError for a host that had to be consulted may abort the whole call with an APIConnectionError (the statement only forbids an empty result); alternatively the result with that host contributing nothing is accepted",
    ".local names are single-label (x.local / x.local.); literals are generated in canonical form",
    "set_instance is only called when the manager holds no instance (or the same one): replacing a live different instance is a documented RuntimeError",
]
EXHAUSTIVE_NOTE = "outcome matrix: every host form x mDNS outcome x OS outcome for one host, and all ordered pairs of forms with representative outcomes, on each of the four manager kinds"
BUDGET = {"quick": {"examples": 500, "shards": 8}, "thorough": {"examples": 12000, "shards": 16}}
FLOORS = {"fallback": 0.15, "mixed_forms": 0.25, "supplied": 0.3}
PORT = 6053

LITERALS = ["10.0.0.5", "192.168.1.7", "fd00::1", "fe80::1%3", "::1", "2001:db8::2%12", "fe80::6", "169.254.1.2"]
LOCALS = ["kitchen", "bedroom", "kitchen.local", "porch.local.", "bedroom.local", "living_room", "living_room.local", "esp-01", "ESP32_a"]
FQDNS = ["dev.example.com", "esp.lan", "a.b.c.org"]


def V(sig, detail=""):
    return Violation(ID, sig, detail)


def form(h: str) -> str:
    if ":" in h:
        return "v6scope" if "%" in h else "v6"
    if h.replace(".", "").isdigit():
        return "v4"
    if "." not in h:
        return "bare"
    if h.rstrip(".").endswith(".local"):
        return "local"
    return "fqdn"


def ip_entry(ip: str):
    if ":" in ip:
        addr, _, scope = ip.partition("%")
        import ipaddress

        return (socket.AF_INET6, str(ipaddress.ip_address(addr)), PORT, int(scope) if scope else 0)  # (canonical spelling)
    return (socket.AF_INET, ip, PORT, 0)


def reference(hosts: list, mdns: dict, dns: dict):
    """-> (expected result list | None, expected mDNS names in order, expected OS hosts in order, os_error_possible)"""
    out, ml, ol = [], [], []
    os_err = False
    for h in hosts:
        f = form(h)
        if f in ("v4", "v6", "v6scope"):
            out.append(ip_entry(h))
            continue
        got = []
        if f in ("bare", "local"):
            name = h.partition(".")[0]
            ml.append(name)
            sc = mdns.get(name, {"outcome": "none"})
            if sc["outcome"] == "ok":
                got = [ip_entry(x) for x in sc.get("v6", [])] + [ip_entry(x) for x in sc.get("v4", [])]
        if not got:
            ol.append(h)
            d = dns.get(h, ["error"])
            if d[0] == "ok":
                got = [ip_entry(x) for x in d[1]]
            elif d[0] == "error":
                os_err = True
                break
        out.extend(got)
    return out, ml, ol, os_err


def flatten(addrs) -> list:
    out = []
    for a in addrs:
        s = a.sockaddr
        out.append((a.family, s.address, s.port, getattr(s, "scope_id", 0)))
    return out


def run_case(case: dict) -> CaseResult:
    from aioesphomeapi import host_resolver as hr
    from aioesphomeapi.core import APIConnectionError
    from aioesphomeapi.zeroconf import ZeroconfManager

    res = CaseResult()
    env = Env()
    world = zcfake.ZcWorld(env)
    world.mdns = {k: dict(v) for k, v in (case.get("mdns") or {}).items()}
    for h, d in (case.get("dns") or {}).items():
        env.dns[h] = ("ok", list(d[1]), D) if d[0] == "ok" else (d[0], D)
    mk = case.get("manager", "empty")
    supplied = []
    if mk == "supplied_async":
        supplied.append(world.supplied_async())
    elif mk == "supplied_sync":
        supplied.append(world.supplied_sync())
    manager = None if mk == "none" else ZeroconfManager(supplied[0] if supplied else None)
    model = {"inst": "supplied" if supplied else None}
    classes: set[str] = set()
    viol = res.violations
    if supplied:
        classes.add("supplied")

    def ledger(where: str, expect_created_open: int):
        for z in world.zcs:
            if z.supplied and z.closed:
                viol.append(V("c20:ownership:supplied-instance-closed", f"{where}: the application's zeroconf instance #{z.idx} was closed {z.closed}x by the library"))
            if not z.supplied and z.closed > 1:
                viol.append(V("c20:ownership:created-instance-closed-twice", f"{where}: instance #{z.idx} closed {z.closed}x"))
        n_open = len(world.open_created())
        if n_open != expect_created_open:
            viol.append(V("c20:ownership:created-instance-" + ("left-open" if n_open > expect_created_open else "closed-early"), f"{where}: {n_open} library-created zeroconf instances open, expected {expect_created_open}"))

    async def do_resolve(i: int, hosts: list, ctor_fail: bool = False):
        broken = ctor_fail and model["inst"] is None
        # (no instance yet and the library cannot create one: mDNS is unavailable for this call, every name goes to the OS)
        exp, ml, ol, os_err = reference(hosts, {} if broken else world.mdns, case.get("dns") or {})
        if broken:
            ml = []
            classes.add("zeroconf_creation_fails")
        n_l, n_d = len(world.lookups), len(env.dns_calls)
        forms = {form(h) for h in hosts}
        if len(forms) > 1:
            classes.add("mixed_forms")
        if any(form(h) in ("bare", "local") and h in ol for h in hosts):
            classes.add("fallback")
        world.fail_create = ctor_fail if ctor_fail in ("rt",) else bool(ctor_fail)
        try:
            got = await hr.async_resolve_host(list(hosts), PORT, manager)
            outcome = ("ok", flatten(got))
        except APIConnectionError as e:
            outcome = ("err", type(e).__name__)
        except BaseException as e:  # noqa: BLE001
            viol.append(V(f"c20:resolve:raised:{type(e).__name__}", f"op {i} hosts {hosts}: {e!r}"))
            return
        finally:
            world.fail_create = False
        where = f"op {i} resolve({hosts})"
        looked = [l[0].split(".")[0] for l in world.lookups[n_l:]]
        osl = [h for h, _ in env.dns_calls[n_d:]]
        # lookups that may happen at all: never for literals, never mDNS for other names, OS only as fallback
        if looked != ml[: len(looked)] or (outcome[0] == "ok" and looked != ml):
            viol.append(V("c20:lookups:mdns", f"{where}: mDNS lookups {looked}, expected {ml}"))
        if osl != ol[: len(osl)] or (outcome[0] == "ok" and osl != ol):
            viol.append(V("c20:lookups:os-resolver", f"{where}: OS lookups {osl}, expected {ol}"))
        for l in world.lookups[n_l:]:
            nm = l[0].split(".")[0]
            if l[0] != f"{nm}._esphomelib._tcp.local." or l[1] != f"{nm}.local.":
                viol.append(V("c20:lookups:mdns-name", f"{where}: service {l[0]} server {l[1]}"))
        if os_err:
            classes.add("os_error")
            if outcome[0] == "ok":
                # tolerated alternative: that host contributes nothing, the rest in order – recompute without the error
                dns2 = {**(case.get("dns") or {})}
                for h in hosts:
                    if dns2.get(h, ["error"])[0] == "error":
                        dns2[h] = ["empty"]
                exp2, *_ = reference(hosts, world.mdns, dns2)
                if outcome[1] != exp2 or not exp2:
                    viol.append(V("c20:result:after-os-error", f"{where}: returned {outcome[1]}, expected an APIConnectionError or {exp2}"))
        elif not exp:
            classes.add("nothing_resolved")
            if outcome[0] == "ok":
                viol.append(V("c20:result:empty-instead-of-error", f"{where}: returned {outcome[1]} although nothing resolved"))
        else:
            if outcome[0] != "ok":
                viol.append(V("c20:result:error-although-resolvable", f"{where}: raised {outcome[1]}, expected {exp}"))
            elif outcome[1] != exp:
                sig = "order" if sorted(outcome[1]) == sorted(exp) else "addresses"
                viol.append(V(f"c20:result:{sig}", f"{where}: returned {outcome[1]}, expected {exp}"))
        ledger(where, 1 if model["inst"] == "created" else 0)

    async def main():
        for i, op in enumerate(case["ops"]):
            o = op["op"]
            if o == "resolve":
                await do_resolve(i, op["hosts"], op.get("ctor_fail") or False)
            elif manager is None:
                continue
            elif o == "get" and op.get("ctor_fail") and model["inst"] is None:
                # the library cannot open mDNS sockets (no interface / container without host networking)
                classes.add("zeroconf_creation_fails")
                world.fail_create = op["ctor_fail"] if op["ctor_fail"] == "rt" else True
                try:
                    manager.get_async_zeroconf()
                    viol.append(V("c20:get:returned-although-creation-failed", f"op {i}"))
                except (OSError, RuntimeError):
                    pass
                finally:
                    world.fail_create = False
                ledger(f"op {i} get (creation fails)", 0)
            elif o == "get":
                manager.get_async_zeroconf()
                if model["inst"] is None:
                    model["inst"] = "created"
                ledger(f"op {i} get", 1 if model["inst"] == "created" else 0)
            elif o == "close":
                await manager.async_close()
                if model["inst"] == "created":
                    model["inst"] = None
                ledger(f"op {i} close", 0)
            elif o == "supply" and model["inst"] == "created":
                # a different instance is offered while the manager holds one it created: refused, nothing changes
                # (silently swapping would orphan the created one and make the next close hit the application's)
                z = world.supplied_async() if op.get("kind") == "async" else world.supplied_sync()
                supplied.append(z)
                classes.add("supply_over_created")
                try:
                    manager.set_instance(z)
                    viol.append(V("c20:ownership:supplied-over-created-accepted", f"op {i}: set_instance() replaced the instance the library had created"))
                except RuntimeError:
                    pass
                ledger(f"op {i} supply over created", 1)
            elif o == "supply":
                if model["inst"] is not None:
                    continue
                z = world.supplied_async() if op.get("kind") == "async" else world.supplied_sync()
                supplied.append(z)
                manager.set_instance(z)
                model["inst"] = "supplied"
                classes.add("supplied")
                classes.add("supplied_after_created" if any(not x.supplied for x in world.zcs) else "supplied_late")
                ledger(f"op {i} supply", 0)
            elif o == "rl":
                await reconnect_round(i, op)
            elif o == "client":
                await client_round(i, op)
        if manager is not None:
            await manager.async_close()
            ledger("final close", 0)

    async def client_round(i: int, op: dict):
        """A full APIClient.connect() on a name that needs mDNS, through the manager under test: whatever the outcome
        (resolved, nothing found, resolver hangs until the 30 s limit cancels it, TCP refused, caller cancels) the
        ownership ledger must balance when the call is over."""
        env.tcp_script = [("refuse", D)] if op.get("tcp") == "refuse" else [("ok", 2 * D)]
        given = list(op["addresses"]) if op.get("addresses") else None
        handed = list(given) if given else None  # the application's own list object
        cli = make_client(env, address=(given[0] if given else op.get("address", "kitchen.local")), addresses=handed)
        cli._params.zeroconf_manager = manager
        env.tcp_land = int(op.get("land", 0))
        if given and op.get("again") and op.get("tcp") != "refuse" and op.get("cancel_after") is None:
            # a first session on this client (the socket ends up on candidate `land`), ended, before the connect judged
            # below: every connect of a client resolves the configured addresses in the configured order
            try:
                await cli.connect(login=True)
            except APIConnectionError:
                pass
            await cli.disconnect(force=True)
            await asyncio.sleep(2 / 64)
            classes.add("client_second_connect_multi_address")
            for h_, script_ in (op.get("dns_then") or {}).items():
                # the OS resolver answers differently from now on: every connect resolves afresh
                env.dns[h_] = tuple(script_) if script_[0] != "ok" else ("ok", list(script_[1]), D)
                (case.setdefault("dns", {}))[h_] = script_
                classes.add("resolver_answer_changed_between_connects")
        n_tcp0 = len(env.tcp_calls)
        exp_addrs, _ml, _ol, _oe = reference(given or [op.get("address", "kitchen.local")], world.mdns, case.get("dns") or {})
        t = env.spawn(f"client{i}", cli.connect(login=True))
        if op.get("cancel_after") is not None:
            await asyncio.sleep(op["cancel_after"] / 64)
            if not t.done():
                env.cancel(f"client{i}")
        await asyncio.wait([t])
        r = env.results.get(f"client{i}")
        if r and r[0] == "exc" and not isinstance(r[1], (APIConnectionError, asyncio.CancelledError)):
            viol.append(V(f"c20:connect:raised:{type(r[1]).__name__}", f"op {i}: {r[1]!r}"))
        # "used verbatim": what reaches the socket layer is the resolved list itself -- address, port and, for IPv6,
        # the numeric scope, in the resolver's order
        for rec in env.tcp_calls[n_tcp0:n_tcp0 + 1]:
            got_a = []
            for ai in rec["addr_infos"]:
                sa = ai[4]
                got_a.append((ai[0], sa[0], sa[1], sa[3] if len(sa) > 3 else 0))
            if got_a != [tuple(x) for x in exp_addrs]:
                viol.append(V("c20:connect:addresses-handed-to-the-socket-layer", f"op {i} connect({op.get('address')}): socket layer got {got_a}, resolved {exp_addrs}"))
            classes.add("connect_addresses_checked")
        env.tcp_land = 0
        await cli.disconnect(force=True)
        await asyncio.sleep(2 / 64)
        ledger(f"op {i} client connect ({op})", 1 if model["inst"] == "created" else 0)
        classes.add("client_connect")

    async def reconnect_round(i: int, op: dict):
        from aioesphomeapi.reconnect_logic import ReconnectLogic

        env.tcp_script = [("refuse", D)] if op.get("tcp") == "refuse" else [("ok", 2 * D)]
        if op.get("tcp") == "refuse_then_ok":
            # the first attempt fails (the manager starts listening: an instance may be created), the retry succeeds
            # (listening ends, the session is up) and only then stop() is called
            env.tcp_script = [("refuse", D)] * (len(env.tcp_calls) + 1) + [("ok", 2 * D)]
        cli = make_client(env, address=op.get("address", "kitchen.local"))
        # the client shares the manager under test
        cli._params.zeroconf_manager = manager

        async def on_connect():
            env.log("rl_on_connect")

        async def on_disconnect(expected):
            env.log("rl_on_disconnect")

        async def on_error(e):
            env.log("rl_on_error", exc=type(e).__name__)

        pass_inst = None
        if op.get("pass_instance") and model["inst"] in (None, "supplied"):
            if model["inst"] is None:
                z = world.supplied_async()
                supplied.append(z)
                model["inst"] = "supplied"
                classes.add("supplied")
                classes.add("supplied_after_created" if any(not x.supplied for x in world.zcs) else "supplied_late")
                pass_inst = z
            else:
                pass_inst = supplied[-1]
        rl = ReconnectLogic(client=cli, on_connect=on_connect, on_disconnect=on_disconnect, zeroconf_instance=pass_inst, name="kitchen", on_connect_error=on_error)
        await rl.start()
        await asyncio.sleep(op.get("wait", 2))
        await rl.stop()
        await cli.disconnect(force=True)
        await asyncio.sleep(1 / 64)
        if model["inst"] == "created":
            model["inst"] = None  # stop() returned: the instance the library created is no longer needed
        ledger(f"op {i} reconnect start/stop", 0)
        for z in world.zcs:
            if z.listeners:
                viol.append(V("c20:ownership:listener-left", f"op {i}: zeroconf #{z.idx} still has a listener after stop()"))
        classes.add("reconnect_round")

    env.loop.sim_at(0, lambda: env.spawn("main", main()))
    env.loop.horizon = START + 3000
    try:
        env.run()
    except IterationCap as e:
        env.close()
        world.close()
        raise HarnessError(f"C20: {e}") from e
    r = env.results.get("main")
    if r is None:
        viol.append(V("c20:hung", "the operation sequence did not finish"))
    elif r[0] != "ok":
        env.close()
        world.close()
        raise HarnessError(f"C20: harness coroutine failed: {r[1]!r}")
    res.classes = sorted(classes)
    res.nontrivial = bool(classes & {"mixed_forms", "fallback", "os_error", "nothing_resolved", "supplied_after_created", "reconnect_round"}) or ("supplied" in classes)
    res.info = {"zeroconf_instances": len(world.zcs), "mdns_lookups": len(world.lookups), "os_lookups": len(env.dns_calls)}
    env.close()
    world.close()
    return res


# ------------------------------------------------------------------ generators
MDNS_HANG = {"outcome": "hang"}
MDNS_OUT = [
    {"outcome": "ok", "v4": ["10.1.0.1"]}, {"outcome": "ok", "v6": ["fd00::aa"]}, {"outcome": "ok", "v4": ["10.1.0.1", "10.1.0.2"], "v6": ["fd00::aa", "fe80::5%2"]},
    {"outcome": "none"}, {"outcome": "raise"}, {"outcome": "ok", "v4": [], "v6": []}, {"outcome": "ok", "v4": ["10.1.0.9"], "v6": ["fd00::a9"], "complete": True},
    {"outcome": "ok", "v6": ["fe80::7"]}, {"outcome": "ok", "v4": ["10.1.0.3"], "v6": ["fe80::8", "fd00::ab"]},  # link-local without a zone
]
DNS_OUT = [["ok", ["10.2.0.1"]], ["ok", ["fd00::bb", "10.2.0.2"]], ["ok", ["10.2.0.3", "10.2.0.4", "fd00::cc"]], ["empty"], ["error"], ["ok", ["fe80::9%4", "10.2.0.5"]], ["ok", ["fe80::a%12"]]]


@st.composite
def _case(draw, tier):
    pool = LITERALS + LOCALS + LOCALS + FQDNS
    ops = []
    for _ in range(draw(st.integers(1, 6))):
        r = draw(st.integers(0, 9))
        if r <= 5 or not ops:
            ops.append({"op": "resolve", "hosts": draw(st.lists(st.sampled_from(pool), min_size=1, max_size=4))})
            if draw(st.integers(0, 5)) == 3:
                ops[-1]["ctor_fail"] = draw(st.sampled_from([True, "rt"]))
        elif r == 6:
            ops.append({"op": "get"})
            if draw(st.integers(0, 2)) == 1:
                ops[-1]["ctor_fail"] = draw(st.sampled_from([True, "rt"]))
        elif r == 7:
            ops.append({"op": "close"})
        elif r == 8:
            ops.append({"op": "supply", "kind": draw(st.sampled_from(["async", "sync"]))})
        elif draw(st.booleans()):
            ops.append({"op": "client", "tcp": draw(st.sampled_from(["refuse", "ok"])), "address": draw(st.sampled_from(["kitchen.local", "kitchen", "bedroom.local", "dev.example.com", "fe80::1%3", "fd00::7", "10.0.0.5", "fe80::aa%11"])),
                        "cancel_after": draw(st.sampled_from([None, None, 0, 1, 2, 64 * 10]))})
            if draw(st.integers(0, 2)) == 0:
                ops[-1]["addresses"] = draw(st.lists(st.sampled_from(["10.0.0.5", "10.0.0.6", "fd00::7", "fe80::1%3", "kitchen.local", "dev.example.com"]), min_size=2, max_size=3, unique=True))
                ops[-1]["land"] = draw(st.integers(0, 2))
                ops[-1]["again"] = draw(st.booleans())
        else:
            ops.append({"op": "rl", "tcp": draw(st.sampled_from(["refuse", "ok", "refuse_then_ok"])), "pass_instance": draw(st.booleans()), "wait": draw(st.sampled_from([1, 3])), "address": draw(st.sampled_from(["kitchen.local", "kitchen", "10.0.0.5"]))})
    mdns = {n: draw(st.sampled_from(MDNS_OUT + ([MDNS_HANG] if any(o["op"] == "client" for o in ops) else []))) for n in ("kitchen", "bedroom", "porch", "living_room", "esp-01", "ESP32_a")}
    dns = {h: draw(st.sampled_from(DNS_OUT)) for h in LOCALS + FQDNS}
    return {"manager": draw(st.sampled_from(["none", "empty", "empty", "supplied_async", "supplied_sync"])), "mdns": mdns, "dns": dns, "ops": ops}


def strategy(tier):
    return _case(tier)


def enumerated(tier):
    for kind in ("async", "sync"):
        yield {"manager": "empty", "mdns": {}, "dns": {}, "ops": [{"op": "get"}, {"op": "supply", "kind": kind}, {"op": "close"}]}
        yield {"manager": "empty", "mdns": {"kitchen": MDNS_OUT[0]}, "dns": {}, "ops": [{"op": "get"}, {"op": "supply", "kind": kind}, {"op": "resolve", "hosts": ["kitchen.local"]}, {"op": "close"}, {"op": "supply", "kind": kind}, {"op": "close"}]}
    # bare names are whatever has neither dot nor colon: underscores, hyphens, capitals included
    for h in ("living_room", "living_room.local", "esp-01", "ESP32_a", "a_b-c"):
        for mo in MDNS_OUT[:3]:
            for do in DNS_OUT:
                yield {"manager": "empty", "mdns": {h.partition(".")[0]: mo}, "dns": {h: do}, "ops": [{"op": "resolve", "hosts": [h]}, {"op": "resolve", "hosts": ["10.0.0.5", h, "fd00::7"]}]}
    # a second connect on the same client after the OS resolver's answer changed (new lease) / stopped resolving
    for addrs in (["dev.example.com", "esp.lan"], ["esp.lan", "10.0.0.5"]):
        for then_ in ({"esp.lan": ["ok", ["10.2.9.9"]]}, {"esp.lan": ["error"], "dev.example.com": ["ok", ["10.2.9.8"]]}):
            yield {"manager": "empty", "mdns": {}, "dns": {"dev.example.com": ["ok", ["10.2.0.1"]], "esp.lan": ["ok", ["10.2.0.3"]]},
                   "ops": [{"op": "client", "tcp": "ok", "addresses": addrs, "land": 0, "again": True, "dns_then": then_}]}
    # IPv6 literals in a legal non-canonical spelling among several addresses, the socket landing on them
    for addrs in (["10.0.0.5", "FD00::7"], ["10.0.0.5", "fd00:0:0::7", "FE80::1%3"], ["FD00::7", "10.0.0.5"]):
        for land in (0, 1, 2):
            yield {"manager": "empty", "mdns": {}, "dns": {}, "ops": [{"op": "client", "tcp": "ok", "addresses": addrs, "land": land, "again": True}]}
    # several configured addresses, the socket landing on the k-th candidate, then a second connect on the same client
    for addrs in (["10.0.0.5", "10.0.0.6"], ["10.0.0.5", "fd00::7", "10.0.0.6"], ["fe80::1%3", "10.0.0.5"], ["10.0.0.5", "kitchen.local"]):
        for land in (0, 1, 2):
            for again in (False, True):
                yield {"manager": "empty", "mdns": {"kitchen": MDNS_OUT[0]}, "dns": {}, "ops": [{"op": "client", "tcp": "ok", "addresses": addrs, "land": land, "again": again}]}
    # a full connect: the resolved addresses reach the socket layer verbatim (scope ids, order)
    for addr in ("fe80::1%3", "fe80::aa%11", "fd00::7", "10.0.0.5", "kitchen.local", "kitchen", "dev.example.com"):
        for tcp in ("ok", "refuse"):
            yield {"manager": "empty", "mdns": {"kitchen": MDNS_OUT[2]}, "dns": {"dev.example.com": DNS_OUT[1], "kitchen.local": DNS_OUT[3], "kitchen": DNS_OUT[3]}, "ops": [{"op": "client", "tcp": tcp, "address": addr}]}
    # the library cannot create its own instance, later the application supplies one / creation works again
    for first in ({"op": "get", "ctor_fail": True}, {"op": "resolve", "hosts": ["kitchen.local"], "ctor_fail": True}, {"op": "resolve", "hosts": ["kitchen", "10.0.0.5", "dev.example.com"], "ctor_fail": True},
                  {"op": "get", "ctor_fail": "rt"}, {"op": "resolve", "hosts": ["kitchen.local"], "ctor_fail": "rt"}, {"op": "resolve", "hosts": ["kitchen", "10.0.0.5", "dev.example.com"], "ctor_fail": "rt"}):
        for then in ([{"op": "supply", "kind": "async"}, {"op": "close"}], [{"op": "supply", "kind": "sync"}, {"op": "resolve", "hosts": ["kitchen.local"]}, {"op": "close"}],
                     [{"op": "get"}, {"op": "close"}], [{"op": "close"}, {"op": "resolve", "hosts": ["kitchen.local"]}], [{"op": "supply", "kind": "async"}, {"op": "rl", "tcp": "refuse", "pass_instance": True, "wait": 2, "address": "kitchen.local"}]):
            yield {"manager": "empty", "mdns": {"kitchen": MDNS_OUT[0]}, "dns": {"kitchen.local": DNS_OUT[0], "kitchen": DNS_OUT[3], "dev.example.com": DNS_OUT[1]}, "ops": [first] + then}
    managers = ["none", "empty", "supplied_async", "supplied_sync"]
    # one host of every form x mDNS outcome x OS outcome
    for mgr in managers:
        for h in LITERALS + ["kitchen", "kitchen.local", "porch.local.", "dev.example.com"]:
            name = h.partition(".")[0]
            for mo in (MDNS_OUT if form(h) in ("bare", "local") else MDNS_OUT[:1]):
                for do in (DNS_OUT if form(h) not in ("v4", "v6", "v6scope") else DNS_OUT[:1]):
                    yield {"manager": mgr, "mdns": {name: mo}, "dns": {h: do}, "ops": [{"op": "resolve", "hosts": [h]}]}
    # ordered pairs of forms
    reps = ["10.0.0.5", "fe80::1%3", "kitchen", "bedroom.local", "dev.example.com"]
    for mgr in ("empty", "supplied_async"):
        for a in reps:
            for b in reps:
                if a == b:
                    continue
                for mo in (MDNS_OUT[2], MDNS_OUT[3], MDNS_OUT[4]):
                    for do in (DNS_OUT[1], DNS_OUT[3], DNS_OUT[4]):
                        yield {"manager": mgr, "mdns": {"kitchen": mo, "bedroom": MDNS_OUT[0]}, "dns": {a: do, b: DNS_OUT[0], "kitchen": do, "bedroom.local": DNS_OUT[0]}, "ops": [{"op": "resolve", "hosts": [a, b]}, {"op": "resolve", "hosts": [b, a, a]}]}
    # manager histories: library creates+closes its own, then the application supplies one, then close / reconnect round
    res_ = {"op": "resolve", "hosts": ["kitchen.local"]}
    for kind in ("async", "sync"):
        for first in ([res_], [{"op": "get"}, {"op": "close"}], [{"op": "get"}, res_, {"op": "close"}], [{"op": "rl", "tcp": "refuse", "pass_instance": False, "wait": 2}]):
            for last in ([{"op": "close"}], [res_, {"op": "close"}], [{"op": "rl", "tcp": "refuse", "pass_instance": False, "wait": 2}], [{"op": "rl", "tcp": "ok", "pass_instance": True, "wait": 2}]):
                for mo in (MDNS_OUT[0], MDNS_OUT[3], MDNS_OUT[4]):
                    yield {"manager": "empty", "mdns": {"kitchen": mo}, "dns": {"kitchen.local": DNS_OUT[0]}, "ops": first + [{"op": "supply", "kind": kind}] + last}
    for mgr in managers[1:]:
        for mo in (MDNS_OUT[0], MDNS_OUT[3], MDNS_OUT[4], MDNS_HANG):
            for tcp in ("refuse", "ok"):
                for ca in (None, 1, 64 * 10):
                    yield {"manager": mgr, "mdns": {"kitchen": mo}, "dns": {"kitchen.local": DNS_OUT[0] if tcp == "ok" else DNS_OUT[3]}, "ops": [{"op": "client", "tcp": tcp, "address": "kitchen.local", "cancel_after": ca}, res_]}
    # ReconnectLogic stopped while its attempt is still resolving (slow / hanging / empty mDNS answers)
    for mgr in ("empty", "supplied_async"):
        for mo in (MDNS_HANG, {"outcome": "ok", "v4": ["10.1.0.1"], "delay": 1.0}, {"outcome": "none", "delay": 2.0}, {"outcome": "raise", "delay": 1.0}):
            for wait in (0.5, 1, 2, 3, 31):
                yield {"manager": mgr, "mdns": {"kitchen": mo}, "dns": {"kitchen.local": DNS_OUT[0]}, "ops": [{"op": "rl", "tcp": "refuse", "pass_instance": False, "wait": wait, "address": "kitchen.local"}, res_]}
    for mgr in managers[1:]:
        for tcp in ("refuse", "ok", "refuse_then_ok"):
            for pi in (False, True):
                for addr in ("kitchen.local", "10.0.0.5"):
                    yield {"manager": mgr, "mdns": {"kitchen": MDNS_OUT[0]}, "dns": {}, "ops": [{"op": "rl", "tcp": tcp, "pass_instance": pi, "wait": 3, "address": addr}, res_]}
