"""C03 – Noise sessions interoperate with a conformant responder, for any chunking.

Layer F (real APINoiseFrameHelper + stub connection/transport) against the
reference responder of vf.noise_ref, and layer S (mode "api": the real
APIClient.connect on the simulation).  Oracle after EVERY chunk: readiness is
signalled iff the last handshake byte has arrived (and the name was accepted);
deliveries are exactly the messages whose frame has completely arrived; nothing is
delivered before readiness; name rule: accepted iff no expected name, no name
announced, or equal.
"""
from __future__ import annotations

import base64

from hypothesis import strategies as st

from vf import fstub, gen, noise_ref, wire
from vf.runner import CaseResult, HarnessError, Violation

ID = "C03"
LEVEL = "exploration"
RULE = (
    "case = 32-byte key (random, all-zero, all-0xFF), ephemeral-key seed, server name absent|present (ASCII, UTF-8, "
    "empty), expected name unset|equal|different (prefix, case variant, empty-vs-set), 0-10 application messages "
    "(type ids incl. 0/65535, payload sizes 0..65515) and a segmentation of the WHOLE server byte stream (hello, "
    "handshake, data frames) biased to: one chunk, hello+handshake together, handshake+first data frame together, cuts "
    "inside the 3-byte headers, byte-at-a-time; chunk buffer kinds bytes/bytearray/memoryview. mode api: the same "
    "through APIClient.connect on the simulated device with a cut hello/handshake chunk. non-trivial = at least one "
    "message and (handshake and a data frame share a chunk, or a cut falls inside a frame header, or two data frames "
    "of different length are split across chunks)."
)
ASSUMPTIONS = [
    "the responder may attach a handshake payload of any length (Noise allows it; the client must ignore it) and the configured key text may carry the white space / line ends legal in base64 text, which the decoder in use ignores",
    "responder = stock noiseprotocol handshake with the default backend + cryptography AEAD under explicit nonces",
    "server names are valid UTF-8 without NUL (the hello format cannot carry anything else)",
    "X25519 ephemerals of both sides come from a counter-based generator (third-party boundary) so a case is reproducible",
]
EXHAUSTIVE_NOTE = "name table (5 announced x 5 expected) x {one chunk, hello|handshake split, byte-at-a-time}; all 1-cut segmentations of a 4-message session"
BUDGET = {"quick": {"examples": 500, "shards": 4}, "thorough": {"examples": 8000, "shards": 16, "fuzz": {"procs": 4, "runs": 15000}}}
FLOORS = {"handshake_and_data_share_chunk": 0.15, "cut_inside_header": 0.3, "name_rejected": 0.08, "split_then_shorter_frame": 0.05}


def announced_name(raw: str | None) -> str | None:
    """The device name inside a server hello: the bytes up to the first NUL (newer firmware appends further
    NUL-terminated fields such as the MAC address after it)."""
    return None if raw is None else raw.split("\x00", 1)[0]


def accept_name(announced: str | None, expected: str | None) -> bool:
    announced = announced_name(announced)
    return expected is None or announced is None or announced == expected


def key_text(key: bytes, fmt: int) -> str:
    """The configured key text: base64 of the key, optionally with the white space / line ends that base64 text
    legally carries (RFC 2045) and that the decoder in use ignores -- the key is the same 32 bytes."""
    t = base64.b64encode(key).decode()
    return [t, t + "\n", t + "\r\n", " " + t, t[:20] + "\n" + t[20:], t + " "][fmt % 6]


def build_server_stream(case: dict, first_write: bytes):
    key = bytes.fromhex(case["key"])
    hello_body, hs_body = noise_ref.split_client_hello(first_write)
    r = noise_ref.Responder(key)
    answer = r.accept_client_handshake(hs_body, bytes(range(int(case.get("hs_payload", 0)))))
    name = case.get("server_name")
    parts = [wire.enc_noise_outer(noise_ref.server_hello(None if name is None else name.encode()))]
    parts.append(wire.enc_noise_outer(answer))
    msgs = [(m[0], gen.payload_bytes(m[1])) for m in case.get("msgs", [])] * int(case.get("repeat", 1))
    for t, p in msgs:
        parts.append(wire.enc_noise_outer(r.encrypt_next(t, p)))
    ends = []
    off = 0
    for p in parts:
        off += len(p)
        ends.append(off)
    return b"".join(parts), ends, msgs, hello_body, r


def run_case(case: dict) -> CaseResult:
    if case.get("mode") == "api":
        return run_api(case)
    gaps = case.get("gaps")  # seconds of virtual time after chunk i (None: no loop turn at all)
    sim = fstub.sim_loop() if gaps else None
    try:
        return _run(case, gaps, sim)
    finally:
        if sim is not None:
            sim.dispose()


def _run(case: dict, gaps, sim) -> CaseResult:
    res = CaseResult()
    key = bytes.fromhex(case["key"])
    expected = case.get("expected")
    h, conn, tr = fstub.make_noise(key_text(key, int(case.get("key_fmt", 0))), expected, eph=int(case.get("eph", 0)), sim=sim)
    if len(tr.writes) != 1:
        res.violations.append(Violation(ID, "c03:client-hello-not-one-write", f"{len(tr.writes)} writes in connection_made"))
        return res
    fw = tr.writes[0]
    try:
        stream, ends, msgs, hello_body, r = build_server_stream(case, fw)
    except Exception as e:  # noqa: BLE001
        res.violations.append(Violation(ID, f"c03:responder-rejects-client-hello:{type(e).__name__}", f"first write {fw[:16].hex()}..: {e}"))
        return res
    if fw[:3] != b"\x01\x00\x00" or hello_body != b"":
        res.violations.append(Violation(ID, "c03:client-hello-frame", fw[:8].hex()))
    name = case.get("server_name")
    ok_name = accept_name(name, expected)
    hello_end, hs_end = ends[0], ends[1]
    data_ends = ends[2:]
    total = len(stream)
    cuts = sorted(c for c in case.get("cuts", []) if 0 <= c <= total)
    kinds = case.get("kinds") or [0]
    fed = 0
    classes = set()
    starts = [0] + ends[:-1]
    for i, chunk in enumerate(wire.iter_cut(stream, cuts)):
        before = fed
        for act in (case.get("flow") or {}).get(str(i), []):
            classes.add("flow_control")  # write-side flow control callbacks: reading goes on as before
            (h.pause_writing if act == "pause" else h.resume_writing)()
        try:
            obj_, recycle_ = fstub.as_kind_recycled(chunk, kinds[i % len(kinds)])
            h.data_received(obj_)
            recycle_()  # caller reuses its receive buffer
        except Exception as e:  # noqa: BLE001
            res.violations.append(Violation(ID, f"c03:data_received-raised:{type(e).__name__}", f"chunk {i}: {e!r}"))
            break
        fed += len(chunk)
        # readiness
        done = h.ready_future.done()
        if ok_name:
            want_ready = fed >= hs_end
            is_ready = done and not h.ready_future.cancelled() and h.ready_future.exception() is None
            if is_ready != want_ready:
                res.violations.append(
                    Violation(ID, "c03:readiness:" + ("early" if is_ready else "late-or-failed"),
                              f"after chunk {i} ({fed}/{total} bytes, handshake ends at {hs_end}): ready={is_ready} exc={done and h.ready_future.exception()!r}")
                )
                break
            exp = [(t, p) for (t, p), e in zip(msgs, data_ends) if e <= fed] if fed >= hs_end else []
            got = [(t, bytes(p)) for t, p in conn.packets]
            if got != exp:
                sig = "early-or-extra" if len(got) > len(exp) else "late-or-missing" if len(got) < len(exp) else "altered"
                res.violations.append(
                    Violation(ID, f"c03:delivery:{sig}", f"after chunk {i} ({fed}/{total}): delivered {[(t, len(p)) for t, p in got][:6]} expected {[(t, len(p)) for t, p in exp][:6]}")
                )
                break
            if conn.errors:
                res.violations.append(Violation(ID, "c03:error-on-conformant-stream", repr(conn.errors[0])))
                break
        else:
            if fed >= hello_end:
                exc = h.ready_future.exception() if done and not h.ready_future.cancelled() else None
                if type(exc).__name__ != "BadNameAPIError" or getattr(exc, "received_name", None) != announced_name(name):
                    res.violations.append(Violation(ID, "c03:name:mismatch-not-rejected", f"announced {name!r} expected {expected!r}: ready_future {exc!r}"))
                    break
                if not conn.errors or type(conn.errors[0]).__name__ != "BadNameAPIError" or not tr.closed:
                    res.violations.append(Violation(ID, "c03:name:not-closed-with-bad-name", f"errors {conn.errors!r} closed={tr.closed}"))
                    break
            if conn.packets:
                res.violations.append(Violation(ID, "c03:name:delivery-despite-mismatch", str(len(conn.packets))))
                break
        if case.get("close_after") is not None and i == int(case["close_after"]) and fed < hs_end:
            # the owner closes the helper (force disconnect / a fatal error elsewhere) while the handshake is in flight:
            # readiness must not be signalled -- a pending readiness wait ends with an error
            classes.add("closed_during_handshake")
            h.close()
            rf = h.ready_future
            if rf.done() and not rf.cancelled() and rf.exception() is None:
                res.violations.append(Violation(ID, "c03:readiness:signalled-by-close", f"close() after {fed}/{hs_end} handshake bytes resolved the readiness wait successfully"))
            if conn.packets:
                res.violations.append(Violation(ID, "c03:delivery:before-handshake", str(len(conn.packets))))
            break
        if gaps and ok_name:
            g = float(gaps[i % len(gaps)])
            n_before = len(conn.packets)
            fstub.advance(sim, g)
            classes.add("time_between_chunks")
            if len(conn.packets) != n_before or conn.errors or tr.closed:
                res.violations.append(Violation(ID, "c03:changed-while-waiting-for-more-bytes", f"after chunk {i} ({fed}/{total} bytes) and {g}s without new data: deliveries {n_before}->{len(conn.packets)}, errors={conn.errors!r} closed={tr.closed}"))
                break
        # classes
        if before < hs_end <= fed and any(e <= fed for e in data_ends):
            classes.add("handshake_and_data_share_chunk")
        if before < hello_end and fed >= hs_end:
            classes.add("hello_and_handshake_share_chunk")
    for c in cuts:
        for s0 in starts:
            if s0 < c < s0 + 3:
                classes.add("cut_inside_header")
    # a split frame followed by a shorter complete frame (stalls a parser that remembers a stale frame end)
    sizes = [e - s0 for s0, e in zip(starts, ends)]
    for idx in range(len(ends) - 1):
        if any(starts[idx] + 3 <= c < ends[idx] for c in cuts) and sizes[idx + 1] < sizes[idx]:
            classes.add("split_then_shorter_frame")
    if case.get("hs_payload"):
        classes.add("handshake_payload")
    if case.get("key_fmt"):
        classes.add("key_text_with_whitespace")
    if not ok_name:
        classes.add("name_rejected")
    elif expected is not None and name is not None:
        classes.add("name_equal")
    if len(cuts) >= total - 1 and total > 3:
        classes.add("byte_at_a_time")
    res.classes = sorted(classes)
    res.nontrivial = bool(msgs) and bool({"handshake_and_data_share_chunk", "cut_inside_header", "split_then_shorter_frame"} & classes)
    res.info = {"bytes": total, "chunks": len(cuts) + 1, "msgs": len(msgs), "name": name, "expected": expected}
    return res


def run_api(case: dict) -> CaseResult:
    """Through APIClient.connect on the simulation: no application byte before the handshake has been
    fed completely; afterwards the device decodes everything under consecutive nonces."""
    import asyncio

    from vf.life import KEY
    from vf.simloop import IterationCap
    from vf.simnet import Env, make_client

    res = CaseResult()
    env = Env(noise_key=KEY)
    dev = env.dev
    name = case.get("server_name")
    expected = case.get("expected")
    dev.noise_name = None if name is None else name.encode()
    dev.name = case.get("api_name", "dev")
    dev.noise_hs_payload = bytes(range(int(case.get("hs_payload", 0))))
    marks = {}

    def hook(sess, answer):
        data = wire.enc_noise_outer(noise_ref.server_hello(dev.noise_name)) + wire.enc_noise_outer(answer)
        extra = b""
        for t, spec in case.get("msgs", []):
            extra += sess.encode((t, gen.payload_bytes(spec)))
        marks["hs_end"] = len(data)
        marks["total"] = len(data) + len(extra)
        sess.send_raw(data + extra, cuts=case.get("cuts"))

    dev.noise_handshake_hook = hook
    via = int(case.get("exp_via", 0))
    cli = make_client(env, noise_psk=key_text(KEY, int(case.get("key_fmt", 0))), expected_name=expected if not via else case.get("ctor_expected"))
    if via == 1:
        cli.expected_name = expected  # the public setter, before connecting
    got = []

    sent_expect: list = []

    async def flow():
        from aioesphomeapi import api_pb2 as pb

        if via == 2:  # ... or between the two public connect phases (the Noise hello is judged in the second)
            await cli.start_connection()
            cli.expected_name = expected
            await cli.finish_connection(login=True)
        else:
            await cli.connect(login=True)
        cli.subscribe_states(got.append)
        # the responder must also be able to read what the client sends afterwards (sizes around the 256-byte carries)
        for n in case.get("send_sizes", []):
            m = pb.VoiceAssistantAudio(data=bytes((i * 7 + n) & 0xFF for i in range(n)))
            sent_expect.append(m.SerializeToString())
            cli._get_connection().send_message(m)
        await asyncio.sleep(1)
        await cli.disconnect()

    env.loop.sim_at(0, lambda: env.spawn("main", flow()))
    try:
        env.run()
    except IterationCap as e:
        env.close()
        raise HarnessError(str(e)) from e
    r = env.results.get("main")
    ok_name = accept_name(name, expected) and (expected is None or dev.name == "" or dev.name == expected)
    outcome = "ok" if r and r[0] == "ok" else type(r[1]).__name__ if r else "pending"
    if ok_name and outcome != "ok":
        res.violations.append(Violation(ID, f"c03:api:connect-failed:{outcome}", str(r and r[1])[:200]))
    if not accept_name(name, expected) and outcome != "BadNameAPIError":
        res.violations.append(Violation(ID, f"c03:api:name-mismatch:{outcome}", f"announced {name!r}, expected {expected!r}"))
    # ordering: the first application frame the device decodes (HelloRequest) must come after the last handshake byte was fed
    fed = 0
    hs_done_seq = None
    for e in env.trace:
        if e["kind"] == "feed":
            fed += len(e["data"])
            if hs_done_seq is None and "hs_end" in marks and fed >= marks["hs_end"]:
                hs_done_seq = e["seq"]
    first_app = next((e["seq"] for e in env.trace if e["kind"] == "rx"), None)
    n_writes_before = sum(1 for e in env.trace if e["kind"] == "write" and (hs_done_seq is None or e["seq"] < hs_done_seq))
    if n_writes_before != 1:
        res.violations.append(Violation(ID, "c03:api:write-before-handshake-complete", f"{n_writes_before} writes before the handshake frame was fed completely"))
    if first_app is not None and hs_done_seq is not None and first_app < hs_done_seq:
        res.violations.append(Violation(ID, "c03:api:application-frame-before-handshake", ""))
    for s in dev.sessions:
        if s.wire_errors:
            res.violations.append(Violation(ID, "c03:api:device-cannot-decode", s.wire_errors[0]))
    if outcome == "ok" and sent_expect:
        got_audio = [p_ for s in dev.sessions for (_q, t_, p_) in s.rx if t_ == 106]
        if got_audio != sent_expect:
            res.violations.append(Violation(ID, "c03:api:responder-read-different-messages", f"sent {len(sent_expect)} messages of sizes {case.get('send_sizes')}, responder decoded {[len(x) for x in got_audio]}"))
    res.classes = ["api"] + (["name_rejected"] if not accept_name(name, expected) else []) + (["early_device_request"] if case.get("msgs") else []) + (["expected_name_via_setter"] if via else [])
    res.nontrivial = bool(case.get("cuts"))
    res.info = {"outcome": outcome}
    env.close()
    return res


# ------------------------------------------------------------------ generators
NAMES = [None, "dev", "", "kitchen", "küche-✓", "Dev", "dev2", "d", "dev\x00AABBCCDDEEFF", "kitchen\x00AABBCCDDEEFF", "dev\x00mac\x00x",
         "dev-2", "dev-aabbcc", "kitchen-1", "de", "n" * 62, "n" * 63, "n" * 64, "n" * 65, "long-" * 40, "ü" * 32, "k" * 200 + "\x00AABBCCDDEEFF"]


@st.composite
def _case(draw, tier):
    if draw(st.integers(0, 9)) == 0:
        return {
            "mode": "api",
            "server_name": draw(st.sampled_from(NAMES)),
            "expected": draw(st.sampled_from([None, None, "dev", "kitchen"])),
            "cuts": draw(st.lists(st.integers(0, 70), max_size=4)),
            # device requests riding in the very chunk that completes the handshake are answered like any other
            "msgs": draw(st.sampled_from([[], [], [[7, {"h": ""}]], [[36, {"h": ""}]], [[7, {"h": ""}], [36, {"h": ""}]]])),
            **({"exp_via": draw(st.sampled_from([1, 2])), "ctor_expected": draw(st.sampled_from([None, "other", "dev"]))} if draw(st.integers(0, 3)) == 0 else {}),
            "hs_payload": draw(st.sampled_from([0, 0, 0, 1, 16, 200])),
            "key_fmt": draw(st.sampled_from([0, 0, 0, 1, 2, 3, 4, 5])),
            "send_sizes": draw(st.lists(st.one_of(st.integers(0, 600), st.sampled_from([230, 233, 236, 250, 252, 255, 256, 488, 492, 508, 1000, 4090, 16000])), max_size=5)),
        }
    key = draw(st.one_of(st.binary(min_size=32, max_size=32), st.sampled_from([bytes(32), b"\xff" * 32, bytes(range(32))])))
    name = draw(st.one_of(st.sampled_from(NAMES), st.text(alphabet=st.characters(blacklist_characters="\x00", blacklist_categories=("Cs",)), max_size=10)))
    exp_mode = draw(st.integers(0, 5))
    if exp_mode <= 2:
        expected = None
    elif exp_mode == 3:
        expected = name if name else draw(st.sampled_from(["dev", "kitchen"]))
    else:
        expected = draw(st.sampled_from(["dev", "kitchen", "Dev", "de", (name or "x") + "x"]))
    n = draw(st.integers(0, 10 if tier == "thorough" else 6))
    msgs = []
    big = 1
    for _ in range(n):
        t = draw(st.one_of(st.sampled_from(range(1, 124)), st.sampled_from([0, 255, 256, 65535])))
        spec = draw(gen.payload_spec(max_len=65515))
        if len(gen.payload_bytes(spec)) > 3000:
            if big == 0:
                spec = {"h": spec["h"][:12]}
            big -= 1
        msgs.append([t, spec])
    # layout: hello frame = 3+1+len(name)+1, handshake = 3+49
    nlen = 0 if name is None else len(name.encode()) + 1
    hello_end = 3 + 1 + nlen
    hsp = draw(st.one_of(st.just(0), st.just(0), st.integers(0, 40), st.sampled_from([1, 16, 32, 48, 255])))
    hs_end = hello_end + 3 + 49 + hsp
    offs = [hs_end]
    for _t, spec in msgs:
        offs.append(offs[-1] + 3 + 4 + len(gen.payload_bytes(spec)) + 16)
    total = offs[-1]
    interesting = [0, 1, 2, 3, hello_end - 1, hello_end, hello_end + 1, hello_end + 2, hello_end + 3, hs_end - 1, hs_end]
    for o in offs:
        interesting += [o - 1, o, o + 1, o + 2, o + 3, o + 4]
    cuts = draw(gen.cuts_for(total, interesting, max_cuts=10))
    return {
        "key": key.hex(),
        "eph": draw(st.integers(0, 50)),
        "server_name": name,
        "expected": expected,
        "msgs": msgs,
        "cuts": cuts,
        "kinds": draw(gen.chunk_kinds()),
        "hs_payload": hsp,
        "key_fmt": draw(st.sampled_from([0, 0, 0, 0, 1, 2, 3, 4, 5])),
        **({"gaps": draw(st.lists(st.sampled_from([0, 0.01, 1, 9.5, 29, 31, 100]), min_size=1, max_size=3))} if draw(st.integers(0, 9)) == 6 else {}),
        **({"close_after": draw(st.integers(0, 3))} if draw(st.integers(0, 11)) == 5 else {}),
        **({"flow": {str(i): draw(st.lists(st.sampled_from(["pause", "resume"]), min_size=1, max_size=2)) for i in range(len(cuts) + 1) if draw(st.integers(0, 2)) == 0}} if draw(st.integers(0, 9)) == 3 else {}),
    }


def strategy(tier):
    return _case(tier)


def enumerated(tier):
    key = bytes(range(32)).hex()
    msgs = [[26, {"h": "0d010000001001"}], [7, {"h": ""}], [35, {"h": "", "pad": [0x41, 300]}], [8, {"h": ""}]]
    for name in [None, "dev", "", "kitchen", "küche", "dev-2", "n" * 63, "n" * 64, "n" * 100, "ü" * 32]:
        for exp in [None, "dev", "kitchen", "Dev", "", "n" * 64]:
            exp = exp or None if exp == "" else exp
            nlen = 0 if name is None else len(name.encode()) + 1
            he = 4 + nlen
            total = he + 52 + sum(23 + len(gen.payload_bytes(s)) for _t, s in msgs)
            for cuts in ([], [he], [he + 52], list(range(1, total))):
                yield {"key": key, "eph": 1, "server_name": name, "expected": exp, "msgs": msgs, "cuts": cuts, "kinds": [len(cuts) % 4]}
    total = 4 + 4 + 52 + sum(23 + len(gen.payload_bytes(s)) for _t, s in msgs)
    for c in range(0, total + 1):
        yield {"key": key, "eph": 2, "server_name": "dev", "expected": "dev", "msgs": msgs, "cuts": [c], "kinds": [c % 4, (c + 1) % 4]}
        if c % 3 == 0:
            yield {"key": key, "eph": 2, "server_name": "dev", "expected": None, "msgs": msgs, "cuts": [c, min(total, c + 5)], "kinds": [0, 1, 2]}
    for c in range(0, 60, 3):
        yield {"key": key, "eph": 5, "server_name": "dev", "expected": "dev", "msgs": [[7, {"h": ""}]], "cuts": [c], "kinds": [0], "close_after": 0}
    # bursts of many complete frames in one chunk; chunks that always end inside a frame while time passes
    small = [[7, {"h": ""}], [26, {"h": "0d01000000"}]]
    for n in (32, 33, 64, 65, 129, 400):
        yield {"key": key, "eph": 4, "server_name": "dev", "expected": None, "msgs": small, "repeat": n, "cuts": [], "kinds": [0]}
        yield {"key": key, "eph": 4, "server_name": "dev", "expected": None, "msgs": small, "repeat": n, "cuts": [8 + 52 + 23 * n + 7], "kinds": [1, 0]}
    mids = [8 + 52 + 30 + k * (23 + 23 + 5) for k in range(1, 12)]
    for g in ([1], [29, 2], [31], [100], [0.01, 600]):
        yield {"key": key, "eph": 4, "server_name": "dev", "expected": None, "msgs": small, "repeat": 12, "cuts": mids, "kinds": [0, 1], "gaps": g}
    for hsp in (1, 2, 16, 48, 100):
        for fmt in range(6):
            tot = 8 + 52 + hsp + sum(23 + len(gen.payload_bytes(s)) for _t, s in msgs)
            for cuts in ([], [8 + 52 + hsp], [8 + 52], list(range(1, tot, 3))):
                yield {"key": key, "eph": 3, "server_name": "dev", "expected": "dev", "msgs": msgs, "cuts": cuts, "kinds": [fmt % 4], "hs_payload": hsp, "key_fmt": fmt}
    for fmt in range(6):
        yield {"mode": "api", "server_name": "dev", "expected": "dev", "cuts": [], "msgs": [], "key_fmt": fmt, "hs_payload": (0, 7)[fmt % 2]}
    for msgs in ([[7, {"h": ""}]], [[36, {"h": ""}]], [[7, {"h": ""}], [36, {"h": ""}], [7, {"h": ""}]]):
        for cuts in ([], [30], [61]):
            yield {"mode": "api", "server_name": "dev", "expected": "dev", "cuts": cuts, "msgs": msgs}
    for via in (1, 2):
        for ce in (None, "other", "dev"):
            for name, exp in (("dev", "dev"), ("dev", "kitchen"), ("kitchen", None), (None, "dev")):
                yield {"mode": "api", "server_name": name, "expected": exp, "cuts": [], "msgs": [], "exp_via": via, "ctor_expected": ce}
    for name in NAMES:
        for exp in (None, "dev", "kitchen"):
            for cuts in ([], [2], [5, 9], [30], [57, 58]):
                yield {"mode": "api", "server_name": name, "expected": exp, "cuts": cuts, "msgs": []}
    for lo in range(0, 520, 8):
        yield {"mode": "api", "server_name": "dev", "expected": "dev", "cuts": [], "msgs": [], "send_sizes": list(range(lo, lo + 8))}
