"""C02, layer S part: real APIConnection.send_messages batches on a simulated plaintext / Noise session.

Every batch must be exactly ONE transport write; the bytes of all writes, parsed by the independent
codec on the device side (Noise: decrypted under consecutive explicit nonces), must be exactly the
frames (descriptor id of the message's class, serialised payload) in order.
"""
from __future__ import annotations

import asyncio

from hypothesis import strategies as st

from vf import pbgen, wire
from vf.runner import CaseResult, HarnessError, Violation
from vf.sess import Session
from vf.simloop import START, IterationCap

ID = "C02"


def client_classes() -> list:
    src = wire.descriptor_sources()
    by_id = wire.ids()[0]
    return [by_id[i] for i in sorted(by_id) if src[by_id[i].__name__] != 1 and i not in (1, 3, 5, 6)]


def run_early(case: dict) -> CaseResult:
    """Batches handed to the connection while the hello/login exchange is still outstanding (the framing handshake
    is complete, the device has not answered yet): every batch is written like any other."""
    import base64

    from aioesphomeapi import api_pb2 as pb

    from vf.life import KEY
    from vf.simnet import D, Env, make_client

    res = CaseResult()
    noise = bool(case.get("noise"))
    env = Env(noise_key=KEY if noise else None)
    env.dev.auto = set()  # never answers the API hello (the Noise handshake itself is answered)
    cli = make_client(env, noise_psk=base64.b64encode(KEY).decode() if noise else None)
    idof = wire.ids()[1]
    expected: list = []
    marks: list = []

    def send_all():
        conn = cli._connection
        tr = env.dev.session.transport if env.dev.session else None
        if conn is None or tr is None or conn.connection_state.name != "HANDSHAKE_COMPLETE":
            raise HarnessError(f"C02 early: connection not in the login phase ({conn and conn.connection_state.name})")
        env.log("early_begin")
        for batch in case["batches"]:
            msgs = tuple(pbgen.build(getattr(pb, n), spec) for n, spec in batch)
            n0 = tr.n_writes
            conn.send_messages(msgs)
            marks.append((tr.n_writes - n0, len(msgs)))
            expected.extend((idof[type(m)], m.SerializeToString()) for m in msgs)
        env.log("batches_done")
        env.spawn("final", cli.disconnect(force=True))

    env.loop.sim_at(0, lambda: env.spawn("main", cli.connect(login=bool(case.get("login", True)))))
    env.loop.sim_at(1.0, send_all)
    env.loop.horizon = START + 60
    try:
        env.run()
    except IterationCap as e:
        env.close()
        raise HarnessError(f"C02 api early: {e}") from e
    for i, (nw, nm) in enumerate(marks):
        if nw != 1:
            res.violations.append(Violation(ID, "c02:api:writes-per-batch", f"(login pending) batch {i} with {nm} messages caused {nw} transport writes"))
            break
    c0 = next((e["seq"] for e in env.trace if e["kind"] == "early_begin"), None)
    c1 = next((e["seq"] for e in env.trace if e["kind"] == "batches_done"), 10**9)
    if c0 is None:
        env.close()
        raise HarnessError("C02 early: batches were not sent")
    got = [(e["type"], e["payload"]) for e in env.trace if e["kind"] == "rx" and c0 < e["seq"] < c1]
    errs = [e["text"] for e in env.trace if e["kind"] == "device_wire_error"]
    if errs:
        res.violations.append(Violation(ID, "c02:api:undecodable-on-device", f"{errs[:2]}"))
    elif got != expected and not res.violations:
        k = next((i for i, (a, b) in enumerate(zip(got, expected)) if a != b), min(len(got), len(expected)))
        res.violations.append(Violation(ID, "c02:api:frames-differ", f"(login pending) frame {k}: device decoded {[(t, p.hex()[:16]) for t, p in got[k:k + 2]]}, expected {[(t, p.hex()[:16]) for t, p in expected[k:k + 2]]} ({len(got)} vs {len(expected)} frames)"))
    res.classes = ["api", "sent_while_login_pending"] + (["noise"] if noise else ["plain"]) + (["batch_ge_2"] if any(nm > 1 for _, nm in marks) else [])
    res.nontrivial = True
    res.info = {"batches": len(marks), "frames": len(expected)}
    env.close()
    return res


def run_case(case: dict) -> CaseResult:
    from aioesphomeapi import api_pb2 as pb

    if case.get("early"):
        return run_early(case)
    res = CaseResult()
    noise = bool(case.get("noise"))
    s = Session(noise=noise, keepalive=float(case.get("keepalive", 512.0)), auto=set())
    env = s.env
    idof = wire.ids()[1]
    expected: list = []
    marks: list = []
    invalid: list = []
    windows: list = []
    classes_extra: set = set()

    async def then(sess: Session):
        conn = sess.conn
        tr = sess.dsess.transport
        rest = b""
        for _ in range(int(case.get("pings_in", 0))):
            # the library's own one-message batches (its answer to the device's ping) are batches like any other:
            # one write each, decoding to exactly that message -- the first, the second and the third time
            n0 = tr.n_writes; w0 = len(env.trace)
            tr.feed(sess.dsess.encode(pb.PingRequest()))
            marks.append((tr.n_writes - n0, 1)); windows.append((w0, len(env.trace)))
            expected.append((8, b""))
            classes_extra.add("library_internal_batches")
        if case.get("partial_in"):
            # the peer's last chunk ended in the middle of a frame (after `lead` complete ones): what the application
            # sends meanwhile is written at once all the same
            lead, k = case["partial_in"]
            frames = [sess.dsess.encode(pb.SensorStateResponse(key=i + 1, state=1.5)) for i in range(int(lead) + 1)]
            cut = max(1, min(len(frames[-1]) - 1, int(k)))
            tr.feed(b"".join(frames[:-1]) + frames[-1][:cut])
            rest = frames[-1][cut:]
            classes_extra.add("sent_while_a_received_frame_is_incomplete")
        if case.get("send_at"):
            # the application sends shortly before / after the (silent) session's keepalive tick: its batch is still
            # exactly its own messages (whatever the library has to say itself goes in a write of its own)
            classes_extra.add("sent_near_a_keepalive_tick")
            await asyncio.sleep(float(case["send_at"]))
        for bi, batch in enumerate(case["batches"]):
            msgs = tuple(pbgen.build(getattr(pb, n), spec) for n, spec in batch)
            n0 = tr.n_writes; w0 = len(env.trace)
            seq0 = len(env.trace)
            if case.get("write_fault") and int(case["write_fault"][0]) == bi and all(type(m) in idof for m in msgs):
                # the transport refuses this write with EAGAIN / EINTR: whatever the library makes of that, the batch is
                # handed to the transport ONCE (a second hand-over duplicates it, and burns nonces over Noise)
                tr.write_fail = ("raise_once", BlockingIOError(11, "Resource temporarily unavailable") if case["write_fault"][1] == "again" else InterruptedError(4, "Interrupted system call"))
                classes_extra.add("write_refused_once")
                try:
                    conn.send_messages(msgs)
                except Exception:  # noqa: BLE001
                    pass
                marks.append((tr.n_writes - n0, len(msgs))); windows.append((w0, len(env.trace)))
                if tr.n_writes - n0 > 1:
                    expected.extend((idof[type(m)], m.SerializeToString()) for m in msgs)  # (what a retry put on the wire)
                break
            if any(type(m) not in idof for m in msgs):
                # a batch that cannot be sent (one member has no wire type): the call is refused; whatever it does, a
                # refused batch puts nothing on the wire and uses up nothing -- the batches after it decode as usual
                try:
                    conn.send_messages(msgs)
                    env.log("invalid_batch_accepted")
                except Exception:  # noqa: BLE001
                    pass
                if tr.n_writes != n0:
                    env.log("invalid_batch_wrote")
                invalid.append(len(marks))
                continue
            if len(msgs) == 1 and case.get("single_api"):
                conn.send_message(msgs[0])
            else:
                conn.send_messages(msgs)
            marks.append((tr.n_writes - n0, len(msgs))); windows.append((w0, len(env.trace)))
            expected.extend((idof[type(m)], m.SerializeToString()) for m in msgs)
            if case.get("resend") and any(f.name == "key" for f in type(msgs[0]).DESCRIPTOR.fields):
                # the caller keeps its request objects: changes one in place and sends the very same tuple again
                # (dimming step by step) -- what is written is what the objects hold NOW
                classes_extra.add("same_objects_resent")
                for k in range(int(case["resend"])):
                    msgs[0].key = (msgs[0].key + 1 + k) & 0xFFFFFFFF
                    n0 = tr.n_writes; w0 = len(env.trace)
                    conn.send_messages(msgs)
                    marks.append((tr.n_writes - n0, len(msgs))); windows.append((w0, len(env.trace)))
                    expected.extend((idof[type(m)], m.SerializeToString()) for m in msgs)
        if rest:
            tr.feed(rest)
        env.log("batches_done")
        env.spawn("final", sess.cli.disconnect(force=True))

    s.start(then)
    env.loop.horizon = START + 60
    try:
        s.run()
    except IterationCap as e:
        s.close()
        raise HarnessError(f"C02 api: {e}") from e
    if s.t0 is None:
        s.close()
        raise HarnessError("C02 api: session not established")
    for i, (nw, nm) in enumerate(marks):
        if nw != 1:
            res.violations.append(Violation(ID, "c02:api:writes-per-batch", f"batch {i} with {nm} messages caused {nw} transport writes"))
            break
    c0 = next(e["seq"] for e in env.trace if e["kind"] == "connected")
    c1 = next((e["seq"] for e in env.trace if e["kind"] == "batches_done"), 10**9)
    # what the device decoded from the writes made DURING the batch calls (the keepalive's own pings, written from its
    # timer, are batches of the library's own and not part of anybody else's)
    got = [(e["type"], e["payload"]) for k, e in enumerate(env.trace) if e["kind"] == "rx" and c0 < e["seq"] < c1 and any(a <= k < b for a, b in windows)]
    errs = [e["text"] for e in env.trace if e["kind"] == "device_wire_error"]
    if errs:
        res.violations.append(Violation(ID, "c02:api:undecodable-on-device", f"{errs[:2]}"))
    elif got != expected:
        k = next((i for i, (a, b) in enumerate(zip(got, expected)) if a != b), min(len(got), len(expected)))
        res.violations.append(Violation(ID, "c02:api:frames-differ", f"frame {k}: device decoded {[(t, p.hex()[:16]) for t, p in got[k:k + 2]]}, expected {[(t, p.hex()[:16]) for t, p in expected[k:k + 2]]} ({len(got)} vs {len(expected)} frames)"))
    if any(e["kind"] == "invalid_batch_wrote" for e in env.trace) and not res.violations:
        res.violations.append(Violation(ID, "c02:api:refused-batch-wrote", "a batch with a member that has no wire type put bytes on the wire"))
    res.classes = ["api"] + (["noise"] if noise else ["plain"]) + (["refused_batch"] if invalid else []) + sorted(classes_extra) + (["batch_ge_2"] if any(nm > 1 for _, nm in marks) else [])
    if noise and len(marks) >= 3:
        res.classes.append("noise_writes_ge_3")
    res.nontrivial = any(nm > 1 for _, nm in marks) or len(marks) >= 3
    res.info = {"batches": len(marks), "frames": len(expected)}
    s.close()
    return res


@st.composite
def _case(draw, tier):
    classes = client_classes()
    names_ok = {c.__name__ for c in classes}
    batches = []
    for _ in range(draw(st.integers(1, 10))):
        batch = []
        for _ in range(draw(st.sampled_from([1, 1, 2, 3]))):
            cls = draw(st.sampled_from(classes))
            batch.append([cls.__name__, draw(pbgen.message_strategy(cls))])
        if draw(st.integers(0, 7)) == 3:
            batch.insert(draw(st.integers(0, len(batch))), [draw(st.sampled_from(["BluetoothServiceData", "ExecuteServiceArgument", "VoiceAssistantAudioSettings"])), {}])
        batches.append(batch)
    if draw(st.integers(0, 5)) == 2:
        return {"mode": "api", "early": True, "login": draw(st.booleans()), "noise": draw(st.booleans()), "batches": [[b for b in bt if b[0] in names_ok] or [[classes[0].__name__, {}]] for bt in batches]}
    return {"mode": "api", "noise": draw(st.booleans()), "single_api": draw(st.booleans()), "batches": batches, **({"resend": draw(st.integers(1, 3))} if draw(st.integers(0, 3)) == 0 else {}),
            **({"partial_in": [draw(st.integers(0, 2)), draw(st.integers(1, 12))]} if draw(st.integers(0, 2)) == 0 else {}),
            **({"pings_in": draw(st.integers(1, 4))} if draw(st.integers(0, 2)) == 0 else {}),
            **({"keepalive": 4.0, "send_at": draw(st.sampled_from([0.5, 3.0, 3.25, 3.5, 3.9, 3.98, 4.0, 4.02, 7.9]))} if draw(st.integers(0, 3)) == 0 else {}),
            **({"write_fault": [draw(st.integers(0, 3)), draw(st.sampled_from(["again", "intr"]))]} if draw(st.integers(0, 4)) == 0 else {})}


def strategy(tier):
    return _case(tier)


def enumerated(tier):
    names = [c.__name__ for c in client_classes()]
    for noise in (False, True):
        for lo in range(0, len(names), 6):
            yield {"mode": "api", "noise": noise, "batches": [[[n, {}] for n in names[lo:lo + 3]], [[n, {}]] if False else [[n, {}] for n in names[lo + 3:lo + 6]] or [[names[0], {}]]]}
        yield {"mode": "api", "noise": noise, "single_api": True, "batches": [[[n, {}]] for n in names[:12]]}
        for lo in range(0, len(names), 8):
            yield {"mode": "api", "early": True, "noise": noise, "batches": [[[n, {}] for n in names[lo:lo + 2]], [[n, {}]] if False else [[n, {}] for n in names[lo + 2:lo + 8]] or [[names[0], {}]]]}
        keyed = [c.__name__ for c in client_classes() if any(f.name == "key" for f in c.DESCRIPTOR.fields)]
        yield {"mode": "api", "noise": noise, "resend": 2, "batches": [[[n, {"key": 5}]] for n in keyed[:6]] + [[[keyed[0], {"key": 1}], [keyed[1], {"key": 2}]]]}
        for at in (3.05, 3.5, 3.9, 3.99, 4.01, 7.95):
            yield {"mode": "api", "noise": noise, "keepalive": 4.0, "send_at": at, "batches": [[[names[0], {}], [names[1], {}]], [[names[2], {}]]]}
        for k in (0, 1):
            for kind in ("again", "intr"):
                yield {"mode": "api", "noise": noise, "write_fault": [k, kind], "batches": [[[names[0], {}]], [[names[1], {}], [names[2], {}]], [[names[3], {}]]]}
        for n in (1, 2, 3):
            yield {"mode": "api", "noise": noise, "pings_in": n, "batches": [[[names[0], {}]], [[names[1], {}], [names[2], {}]]]}
        for lead in (0, 1):
            for k in (1, 2, 3, 5):
                yield {"mode": "api", "noise": noise, "partial_in": [lead, k], "batches": [[[n, {}]] for n in names[:3]] + [[[n, {}] for n in names[3:6]]]}
        for pos in (0, 1, 2):
            bad = [[n, {}] for n in names[:2]]
            bad.insert(pos, ["BluetoothServiceData", {}])
            yield {"mode": "api", "noise": noise, "batches": [[[names[0], {}]], bad, [[names[1], {}]], [[names[2], {}], [names[3], {}]]]}
