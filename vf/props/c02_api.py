"""C02, layer S part (filled in once the simulation layer exists)."""
from hypothesis import strategies as st


def strategy(tier):
    return st.nothing()


def enumerated(tier):
    return iter(())


def run_case(case):
    raise NotImplementedError
