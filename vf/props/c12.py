"""C12 – dispatch exactly once in order; unknown types ignored; peer requests answered.

Layer S, established session.  Case kinds:
  history   subscribe / unsubscribe / incoming-frame histories with callbacks that, when
            invoked, unsubscribe themselves, unsubscribe another callback or subscribe a
            new one (re-entrancy scripted in the case).  Oracle: snapshot model.
  types     a list of type numbers with empty / valid payloads: defined ids reach a
            subscriber of exactly that class; undefined ids do nothing at all.
  silent    a peer that sends only undefined-type frames is pinged and dropped on the
            silent-peer timeline (unknown frames are not a sign of life).
"""
from __future__ import annotations

import asyncio

import time

from hypothesis import strategies as st

from vf import pbgen, wire
from vf.runner import CaseResult, HarnessError, Violation
from vf.sess import Session
from vf.simloop import START, IterationCap

ID = "C12"
LEVEL = "exploration"
RULE = (
    "case kinds: (history) 1-25 operations {subscribe a callback to 1-3 of 6 message types with a script of re-entrant "
    "actions (on its k-th invocation: unsubscribe itself | unsubscribe callback X | subscribe a new callback), "
    "unsubscribe, an internal request/response waiter on one of the types, incoming frame (one of the 6 types with a generated valid payload | a known type with a payload the "
    "protobuf runtime rejects | an undefined type number), PingRequest, GetTimeRequest, DisconnectRequest}, consecutive "
    "frames optionally coalesced into one chunk, plaintext|noise; (types) type numbers 0, every defined id, last+1, "
    "sampled ids up to 65535 and large varints (thorough: all 0..65535) with empty and generated payloads; (silent) "
    "only undefined-type frames at generated instants. Oracle: snapshot model (each callback registered for the type "
    "at that moment gets the message exactly once, per-callback arrival order; re-entrant changes take effect from "
    "the next frame), writes = exactly the expected responses. non-trivial = a re-entrant (un)subscription happened "
    "during a dispatch, or a boundary/undefined id was dispatched, or an undecodable payload closed the session."
)
ASSUMPTIONS = [
    "the order among subscribers of one message is unspecified (the implementation iterates a set): comparisons are per-message multisets",
    "decodability of a payload is decided by the protobuf runtime (MergeFromString) – third-party oracle",
    "GetTimeResponse.epoch_seconds is only checked for plausibility (+-5 s of the harness wall clock)",
]
EXHAUSTIVE_NOTE = "quick: type ids 0..400 and every defined id with a valid payload; thorough: every type id 0..65535"
BUDGET = {"quick": {"examples": 500, "shards": 4}, "thorough": {"examples": 10000, "shards": 16, "fuzz": {"procs": 4, "runs": 6000}}}
FLOORS = {"reentrant": 0.12, "unknown_type": 0.1, "peer_request": 0.08}

TYPES6 = [26, 25, 21, 27, 29, 24]


def defined_ids() -> dict[int, type]:
    return wire.ids()[0]


def decodable(cls, data: bytes) -> bool:
    try:
        cls().MergeFromString(data)
        return True
    except Exception:  # noqa: BLE001
        return False


def run_late_bad_payload(case: dict) -> CaseResult:
    """An undecodable payload of a known type closes the connection with a protocol error -- also on a connection
    that has something else on its mind: a connect still waiting for its hello answer and a disconnect() that has
    already given up waiting for that connect (and noted its timeout) and is now waiting for its own answer."""
    from vf import life

    at = int(case.get("at", 256 * 7))
    obs = life.run({"noise": bool(case.get("noise")), "login": bool(case.get("login", True)), "flow": "connect", "K": 8.0, "final_at": 400.0, "latency": 64 * 30,
                    "events": [{"do": "disconnect", "at": 30}, {"do": "chunk", "frames": list(case.get("frames", ["badstate"])), "at": at}]})
    if obs.harness_error:
        raise HarnessError(f"C12 late bad payload: {obs.harness_error}")
    res = CaseResult(nontrivial=True, classes=["undecodable_payload_during_pending_disconnect"])
    fed = next((e for e in obs.trace if e["kind"] == "feed" and abs(e["t"] - at / 256) < 1e-6), None)
    if fed is None or obs.skipped:
        res.classes.append("chunk_skipped")
        return res
    closed = next((e for e in obs.trace if e["kind"] == "state" and e["value"].name == "CLOSED"), None)
    if closed is None or closed["t"] > fed["t"] + 1e-6:
        res.violations.append(Violation(ID, "c12:undecodable-payload:connection-not-closed",
                                        f"undecodable payload of a known type fed at t={fed['t']}; connection closed at {closed and closed['t']}"))
    res.info = {"fed": fed["t"], "closed": closed and closed["t"]}
    return res


def run_case(case: dict) -> CaseResult:
    kind = case.get("kind", "history")
    if kind == "late_bad_payload":
        return run_late_bad_payload(case)
    if kind == "silent":
        return run_silent(case)
    if kind == "early":
        return run_early(case)
    from aioesphomeapi import api_pb2 as pb

    res = CaseResult()
    noise = bool(case.get("noise"))
    s = Session(noise=noise, keepalive=32.0, auto=set())
    env = s.env
    by_id = defined_ids()
    # kind "types": one watcher subscribed to EVERY defined class, so a misrouted frame is seen
    ops = case["ops"] if kind == "history" else [{"op": "sub", "id": "w", "types": sorted(by_id), "script": []}] + [
        {"op": "msg", "type": f[0], "payload": f[1]} for f in case["frames"]
    ]
    got: dict[str, list] = {}
    removers: dict[str, object] = {}
    scripts: dict[str, list] = {}
    counts: dict[str, int] = {}
    exp_got: dict[str, list] = {}
    registry: dict[str, set] = {}
    state = {"closed_expected": None, "reentrant": False, "stopped_at": None}
    expected_writes: list[int] = []
    classes = set()

    def make_cb(cid: str):
        def cb(msg):
            got.setdefault(cid, []).append((wire.ids()[1][type(msg)], msg.SerializeToString()))
            counts[cid] = counts.get(cid, 0) + 1
            for act in scripts.get(cid, []):
                if act["at"] == counts[cid]:
                    do = act["do"]
                    if do == "unsub_self":
                        removers[cid]()
                    elif do[0] == "unsub":
                        r = removers.get(do[1])
                        if r is not None:
                            r()
                    elif do == "close":
                        # the subscriber closes the connection from inside its callback (public API, runs synchronously
                        # up to its first await = through the forced close)
                        env.spawn(f"cbclose.{cid}.{counts[cid]}", s.cli.disconnect(force=True))
                    elif do[0] == "sub":
                        nid = f"{cid}.{counts[cid]}"
                        subscribe(nid, do[1], do[2] if len(do) > 2 else [])

        return cb

    def subscribe(cid: str, types: list[int], script: list) -> None:
        scripts[cid] = script
        removers[cid] = s.conn.add_message_callback(make_cb(cid), tuple(by_id[t] for t in types))

    def then(sess: Session):
        dsess = sess.dsess
        tr = dsess.transport
        pending_chunk = []

        mis = list(case.get("misalign") or [])
        n_flush = [0]
        enc_cache: dict = {}
        skip: dict = {}

        def frame_of(j):
            """Wire bytes of msg op j (encoded once, in stream order)."""
            if j not in enc_cache:
                op_ = ops[j]
                payload_ = bytes.fromhex(op_["payload"]["hex"]) if isinstance(op_["payload"], dict) and "hex" in op_["payload"] else (
                    pbgen.build(by_id[op_["type"]], op_["payload"]).SerializeToString() if isinstance(op_["payload"], dict) else b"")
                enc_cache[j] = dsess.encode((op_["type"], payload_))
            return enc_cache[j]

        def flush(cur=None):
            if pending_chunk and not tr.closing:
                data = b"".join(pending_chunk)
                # reads not aligned to frames: this read ends k bytes into the frame of the NEXT operation (if that is an
                # incoming message); the rest of that frame arrives with its own read
                if mis and cur is not None and cur + 1 < len(ops) and ops[cur + 1]["op"] == "msg" and not (noise and not (0 <= ops[cur + 1]["type"] <= 65535)):
                    k = mis[n_flush[0] % len(mis)]
                    n_flush[0] += 1
                    nxt = frame_of(cur + 1)
                    k = max(0, min(k, len(nxt) - 1))
                    if k:
                        skip[cur + 1] = k
                        data += nxt[:k]
                        classes.add("reads_not_aligned_to_frames")
                tr.feed(data)
            pending_chunk.clear()

        def model_dispatch(tid: int, payload: bytes):
            """Update the model for one incoming frame; returns False when the session must close."""
            if state["closed_expected"]:
                return
            cls = by_id.get(tid)
            if cls is None:
                classes.add("unknown_type")
                return
            if not decodable(cls, payload):
                state["closed_expected"] = "ProtocolAPIError"
                classes.add("undecodable")
                return
            m = cls()
            m.MergeFromString(payload)
            canon = m.SerializeToString()
            if tid == 7:
                expected_writes.append(8)
            elif tid == 36:
                expected_writes.append(37)
            elif tid == 5:
                expected_writes.append(6)
                state["closed_expected"] = "expected-disconnect"
            snapshot = [cid for cid, ts in registry.items() if tid in ts]
            # deliveries first (snapshot), then the scripted re-entrant effects – order independent by construction
            effects = []
            for cid in snapshot:
                exp_got.setdefault(cid, []).append((tid, canon))
                n = len(exp_got[cid])
                for act in scripts_model.get(cid, []):
                    if act["at"] == n:
                        effects.append((cid, n, act["do"]))
            for cid, n, do in effects:
                state["reentrant"] = True
                if do == "close":
                    # every subscriber of the snapshot still gets THIS message; nothing is delivered afterwards
                    if not state["closed_expected"]:
                        state["closed_expected"] = "forced-in-callback"
                        expected_writes.append(5)
                        classes.add("closed_inside_callback")
                elif do == "unsub_self":
                    registry.pop(cid, None)
                elif do[0] == "unsub":
                    registry.pop(do[1], None)
                elif do[0] == "sub":
                    nid = f"{cid}.{n}"
                    registry[nid] = set(do[1])
                    scripts_model[nid] = do[2] if len(do) > 2 else []

        scripts_model: dict[str, list] = {}
        for i, op in enumerate(ops):
            o = op["op"]
            if o == "msg":
                payload = bytes.fromhex(op["payload"]["hex"]) if isinstance(op["payload"], dict) and "hex" in op["payload"] else (
                    pbgen.build(by_id[op["type"]], op["payload"]).SerializeToString() if isinstance(op["payload"], dict) else b""
                )
                tid = op["type"]
                if noise and not (0 <= tid <= 65535):
                    continue
                if tr.closing:
                    break
                pending_chunk.append(frame_of(i)[skip.pop(i, 0):])
                if not op.get("merge"):
                    flush(i)
                    # the model sees frames in feed order; merged frames are dispatched in the same call
                model_pending.append((tid, payload))
                if not op.get("merge"):
                    for t_, p_ in model_pending:
                        model_dispatch(t_, p_)
                    model_pending.clear()
                continue
            flush()
            for t_, p_ in model_pending:
                model_dispatch(t_, p_)
            model_pending.clear()
            if tr.closing or sess.conn.connection_state.name == "CLOSED":
                break
            if o == "sub":
                subscribe(op["id"], op["types"], op.get("script", []))
                registry[op["id"]] = set(op["types"])
                scripts_model[op["id"]] = op.get("script", [])
            elif o == "unsub":
                r = removers.get(op["id"])
                if r is not None:
                    r()
                registry.pop(op["id"], None)
            elif o == "wait":
                # an internal request/response waiter registered on one of the types (as device_info() etc. do)
                classes.add("waiter")
                env.spawn(f"wait{i}", sess.conn.send_message_await_response(pb.PingRequest(), by_id[op["type"]], 200.0))
                expected_writes.append(7)
            elif o == "local_disconnect":
                # the client's own graceful disconnect is in flight (request written, the device has not answered):
                # the session is still up, dispatch and the answers to the device's requests go on as before
                if not state.get("local_disc"):
                    state["local_disc"] = True
                    classes.add("local_disconnect_in_flight")
                    env.spawn(f"ldisc{i}", sess.cli.disconnect())
                    expected_writes.append(5)
            elif o in ("pause", "resume"):
                # write-side flow control of the transport: answers to the device's requests are written all the same
                classes.add("writing_paused")
                (tr.proto.pause_writing if o == "pause" else tr.proto.resume_writing)()
            elif o == "peer":
                classes.add("peer_request")
                what = op["what"]
                tid = {"ping": 7, "gettime": 36, "discreq": 5}[what]
                pending_chunk.append(dsess.encode((tid, b"")))
                flush()
                model_dispatch(tid, b"")
        flush()
        for t_, p_ in model_pending:
            model_dispatch(t_, p_)
        model_pending.clear()
        state["state_after"] = sess.conn.connection_state.name
        if sess.conn.connection_state.name != "CLOSED":
            env.spawn("final", sess.cli.disconnect(force=True))

    model_pending: list = []
    wall0 = time.time()
    s.start(then)
    env.loop.horizon = START + 300
    try:
        s.run()
    except IterationCap as e:
        s.close()
        raise HarnessError(f"C12: {e}") from e
    if s.t0 is None:
        s.close()
        raise HarnessError("C12: session not established")
    mr = env.results.get("main")
    if mr is not None and mr[0] == "exc":
        from vf.runner import repo_frame_of

        if repo_frame_of(mr[1]) is None:
            s.close()
            raise HarnessError(f"C12: the scripted history itself failed: {mr[1]!r}")
    # ---- compare
    conn_seq = next(e["seq"] for e in env.trace if e["kind"] == "connected")
    for cid in set(got) | set(exp_got):
        g = got.get(cid, [])
        x = exp_got.get(cid, [])
        if g != x:
            if len(g) > len(x):
                sig = "extra-delivery"
            elif len(g) < len(x):
                sig = "missing-delivery"
            else:
                sig = "wrong-message-or-order"
            res.violations.append(Violation(ID, f"c12:dispatch:{sig}", f"callback {cid}: got {[(t, b.hex()[:12]) for t, b in g][:8]} expected {[(t, b.hex()[:12]) for t, b in x][:8]}"))
            break
    # writes after connect, before the final forced disconnect
    final_seq = next((e["seq"] for e in env.trace if e["kind"] == "op_start" and e["op"] == "final"), 10**9)
    writes = []
    for e in env.trace:
        if e["kind"] == "rx" and conn_seq < e["seq"] < final_seq:
            writes.append((e["type"], e["payload"]))
    wtypes = [t for t, _ in writes]
    if wtypes != expected_writes:
        res.violations.append(Violation(ID, "c12:responses:" + ("missing" if len(wtypes) < len(expected_writes) else "unexpected-write"), f"device decoded {wtypes}, expected {expected_writes}"))
    for t, p in writes:
        if t == 37:
            from aioesphomeapi import api_pb2 as pb2

            m = pb2.GetTimeResponse()
            m.MergeFromString(p)
            if not (wall0 - 5 <= m.epoch_seconds <= time.time() + 5):
                res.violations.append(Violation(ID, "c12:gettime-implausible", str(m.epoch_seconds)))
    ce = state["closed_expected"]
    after = state.get("state_after")
    if ce is None and after != "CONNECTED":
        res.violations.append(Violation(ID, f"c12:state-changed:{after}", "session should still be CONNECTED after the history"))
    if ce == "ProtocolAPIError":
        errs = [e for e in env.trace if e["kind"] == "data_received_raised"]
        closed = after == "CLOSED" or any(e["kind"] == "state" and e["value"].name == "CLOSED" for e in env.trace)
        if not closed:
            res.violations.append(Violation(ID, "c12:undecodable-not-closed", ""))
        if [x[1] for x in s.stops] != [bool(state.get("local_disc"))]:  # (C07: true iff a graceful disconnect had been initiated)
            res.violations.append(Violation(ID, "c12:undecodable:on_stop", str(s.stops)))
        fe = s.conn._fatal_exception
        if type(fe).__name__ != "ProtocolAPIError":
            res.violations.append(Violation(ID, f"c12:undecodable:error-class:{type(fe).__name__}", ""))
    if ce == "forced-in-callback":
        if after != "CLOSED":
            res.violations.append(Violation(ID, f"c12:forced-close-in-callback:state:{after}", ""))
        if [x[1] for x in s.stops] != [True]:
            res.violations.append(Violation(ID, "c12:forced-close-in-callback:on_stop", str(s.stops)))
    if ce == "expected-disconnect":
        if [x[1] for x in s.stops] != [True]:
            res.violations.append(Violation(ID, "c12:disconnect-request:on_stop", str(s.stops)))
        # response written before the transport closed
        wseq = [e["seq"] for e in env.trace if e["kind"] == "rx" and e["type"] == 6]
        cseq = [e["seq"] for e in env.trace if e["kind"] == "transport_close"]
        if not wseq or (cseq and wseq[0] > cseq[0]):
            res.violations.append(Violation(ID, "c12:disconnect-request:response-not-before-close", ""))
    if state["reentrant"]:
        classes.add("reentrant")
    if kind == "types":
        classes.add("type_sweep")
    if noise:
        classes.add("noise")
    res.classes = sorted(classes)
    res.nontrivial = bool({"reentrant", "unknown_type", "undecodable"} & classes)
    res.info = {"ops": len(ops), "deliveries": sum(len(v) for v in got.values()), "closed_expected": ce}
    s.close()
    return res


def run_silent(case: dict) -> CaseResult:
    """Only undefined-type frames arrive: ping at the first tick, dead 4.5K later (as if fully silent)."""
    res = CaseResult()
    K = float(case.get("K", 2.0))
    s = Session(noise=bool(case.get("noise")), keepalive=K, auto=set())
    env = s.env

    def then(sess: Session):
        for off, tid in case["frames"]:
            sess.device_send_at(sess.t0 + off * (K / 128), (tid, b"\x08\x01"))
        env.loop.horizon = START + sess.t0 + 14 * K

    s.start(then)
    try:
        s.run()
    except IterationCap as e:
        s.close()
        raise HarnessError(str(e)) from e
    t0 = s.t0
    pings = [round((e["t"] - t0) / K, 6) for e in env.trace if e["kind"] == "rx" and e["type"] == 7]
    closed = [round((e["t"] - t0) / K, 6) for e in env.trace if e["kind"] == "state" and e["value"].name == "CLOSED"]
    if pings != [1.0, 2.0, 3.0, 4.0, 5.0] or closed[:1] != [5.5]:
        res.violations.append(Violation(ID, "c12:unknown-type-counts-as-life", f"pings at {pings}K, closed at {closed}K; a fully silent peer gives pings 1..5K and death at 5.5K"))
    res.classes = ["unknown_type", "silent_timeline"]
    res.nontrivial = True
    res.info = {"pings": pings, "closed": closed}
    s.close()
    return res


def run_early(case: dict) -> CaseResult:
    """Peer requests that arrive while the hello/login exchange is still running (same chunk as the
    HelloResponse/ConnectResponse, chunk cut anywhere): each is answered with the matching response."""
    import base64

    from aioesphomeapi import api_pb2 as pb

    from vf.life import KEY
    from vf.simnet import Env, make_client

    res = CaseResult()
    noise = bool(case.get("noise"))
    env = Env(noise_key=KEY if noise else None)
    cli = make_client(env, noise_psk=base64.b64encode(KEY).decode() if noise else None)
    mk = {"ping": pb.PingRequest, "gettime": pb.GetTimeRequest, "discreq": pb.DisconnectRequest}
    reqs = list(case["trailer"])
    if "discreq" in reqs:
        reqs = reqs[: reqs.index("discreq") + 1]
    env.dev.hello_trailer_msgs = [mk[r]() for r in reqs]
    env.dev.hello_cuts = case.get("cuts")
    stops = []

    async def on_stop(expected):
        stops.append(expected)

    presub = list(case.get("presub") or [])
    late = [r for r in (case.get("late") or [])]
    sub_got: list = []
    ids = {"ping": 7, "gettime": 36, "discreq": 5}

    async def main():
        if presub:
            # two-phase connect; a subscriber registered on the connection object between the phases is registered
            # 'at that moment' for everything that arrives from the hello answer on
            from vf import wire
            by_id = wire.ids()[0]
            await cli.start_connection(on_stop=on_stop)
            conn = env.conns[-1]
            conn.add_message_callback(lambda m: sub_got.append(type(m).__name__), tuple(by_id[ids[r]] for r in presub))
            await cli.finish_connection(login=bool(case.get("login", True)))
        else:
            await cli.connect(on_stop=on_stop, login=bool(case.get("login", True)))
        for r in late:
            tr_ = env.dev.session.transport
            if tr_.closing:
                break
            tr_.feed(env.dev.session.encode(mk[r]()))
            await asyncio.sleep(1 / 16)
        env.log("connected")
        await cli.disconnect(force=True)

    env.loop.sim_at(0, lambda: env.spawn("main", main()))
    env.loop.horizon = START + 200
    try:
        env.run()
    except IterationCap as e:
        env.close()
        raise HarnessError(f"C12 early: {e}") from e
    if "discreq" in reqs:
        late = []
    elif "discreq" in late:
        late = late[: late.index("discreq") + 1]
    if presub:
        want_sub = [mk[r].__name__ for r in reqs + late if r in presub]
        if sub_got != want_sub:
            res.violations.append(Violation(ID, "c12:subscriber-registered-before-the-handshake:" + ("missed" if len(sub_got) < len(want_sub) else "wrong-deliveries"),
                                            f"subscribed to {presub} between start_connection() and finish_connection(); device sent {reqs} with the hello answer and {late} later; subscriber saw {sub_got}, expected {want_sub}"))
    expected = [{"ping": 8, "gettime": 37, "discreq": 6}[r] for r in reqs + late]
    final_seq = next((e["seq"] for e in env.trace if e["kind"] == "connected"), 10**9)
    wrote = [e["type"] for e in env.trace if e["kind"] == "rx" and e["seq"] < final_seq and e["type"] not in (1, 3)]
    if wrote != expected:
        res.violations.append(Violation(ID, "c12:early-peer-request:" + ("missing" if len(wrote) < len(expected) else "unexpected-write"),
                                        f"requests {reqs} arrived with the hello answer; device decoded responses {wrote}, expected {expected}"))
    if "discreq" in reqs:
        closed = any(e["kind"] == "state" and e["value"].name == "CLOSED" for e in env.trace)
        r = env.results.get("main")
        if not closed or r is None or r[0] != "exc":
            res.violations.append(Violation(ID, "c12:early-disconnect-request:not-closed", f"main={r and r[0]} closed={closed}"))
        wseq = [e["seq"] for e in env.trace if e["kind"] == "rx" and e["type"] == 6]
        cseq = [e["seq"] for e in env.trace if e["kind"] == "transport_close"]
        if wseq and cseq and wseq[0] > cseq[0]:
            res.violations.append(Violation(ID, "c12:disconnect-request:response-not-before-close", "early"))
    res.classes = ["peer_request", "early"] + (["noise"] if noise else []) + (["subscriber_before_handshake"] if presub else [])
    res.nontrivial = True
    res.info = {"trailer": reqs, "wrote": wrote, "subscriber": sub_got}
    env.close()
    return res


# ------------------------------------------------------------------ generators
def undefined_ids():
    mx = max(defined_ids())
    return st.one_of(st.sampled_from([0, mx + 1, mx + 2, 200, 255, 256, 1000, 65535]), st.integers(mx + 1, 65535))


@st.composite
def _history(draw, tier):
    by_id = defined_ids()
    nops = draw(st.integers(1, 25 if tier == "thorough" else 16))
    ops = []
    ids = []
    for i in range(nops):
        r = draw(st.integers(0, 13))
        if r <= 3 or not ids:
            cid = f"c{len(ids)}"
            script = []
            for _ in range(draw(st.integers(0, 3))):
                at = draw(st.sampled_from([1, 1, 2, 3]))
                a = draw(st.integers(0, 2))
                if draw(st.integers(0, 11)) == 5:
                    script.append({"at": at, "do": "close"})
                elif a == 0:
                    script.append({"at": at, "do": "unsub_self"})
                elif a == 1 and ids:
                    script.append({"at": at, "do": ["unsub", draw(st.sampled_from(ids))]})
                else:
                    script.append({"at": at, "do": ["sub", sorted(set(draw(st.lists(st.sampled_from(TYPES6), min_size=1, max_size=2))))]})
            # at most one action per invocation index keeps the script unambiguous
            seen = set()
            script = [a for a in script if not (a["at"] in seen or seen.add(a["at"]))]
            types = sorted(set(draw(st.lists(st.sampled_from(TYPES6), min_size=1, max_size=3))))
            if not any(a["do"] == "close" for a in script) and draw(st.integers(0, 5)) == 2:
                # ... also a subscriber to one of the peer-request types next to the internal handler
                types = sorted(set(types + [draw(st.sampled_from([5, 7, 36]))]))
            if draw(st.integers(0, 5)) == 4:
                # the caller's type tuple names a type twice (built by concatenating overlapping tuples)
                types = [types[0]] + types if draw(st.booleans()) else types + [types[0]]
            ops.append({"op": "sub", "id": cid, "types": types, "script": script})
            ids.append(cid)
        elif r == 4 and draw(st.booleans()):
            ops.append({"op": "wait", "type": draw(st.sampled_from(TYPES6))})
        elif r == 4:
            ops.append({"op": "unsub", "id": draw(st.sampled_from(ids))})
        elif r <= 10:
            tid = draw(st.sampled_from(TYPES6))
            ops.append({"op": "msg", "type": tid, "payload": draw(pbgen.message_strategy(by_id[tid])), "merge": draw(st.integers(0, 2)) == 0})
        elif r == 11:
            ops.append({"op": "msg", "type": draw(undefined_ids()), "payload": {"hex": draw(st.binary(max_size=6)).hex()}, "merge": draw(st.booleans())})
        elif r == 12 and draw(st.integers(0, 3)) == 0:
            ops.append({"op": "local_disconnect"})
        elif r == 12:
            ops.append({"op": "peer", "what": draw(st.sampled_from(["ping", "ping", "gettime", "discreq"]))})
        else:
            tid = draw(st.sampled_from(TYPES6))
            ops.append({"op": "msg", "type": tid, "payload": {"hex": draw(st.sampled_from(["08", "0d0100", "ff", "0a05616263", "1880"]))}})
    out = {"kind": "history", "noise": draw(st.integers(0, 3)) == 0, "ops": ops}
    if draw(st.integers(0, 3)) == 0:
        out["misalign"] = draw(st.lists(st.sampled_from([0, 1, 1, 2, 3, 4, 9]), min_size=1, max_size=4))
    return out


@st.composite
def _types(draw, tier):
    by_id = defined_ids()
    n = draw(st.integers(1, 12))
    frames = []
    noise = draw(st.booleans())
    for _ in range(n):
        if draw(st.booleans()):
            tid = draw(st.sampled_from(sorted(set(by_id) - {5, 2, 4})))
            frames.append([tid, draw(pbgen.message_strategy(by_id[tid]))])
        else:
            # plaintext type numbers are varints of any size: numbers congruent to a defined id modulo 2^16 / 2^32 / 2^64 are
            # still undefined
            wide = st.builds(lambda k, i: (1 << k) + i, st.sampled_from([16, 21, 28, 32, 35, 56, 63]), st.sampled_from(sorted(by_id)))
            tid = draw(st.one_of(undefined_ids(), st.sampled_from([0, 2**21, 2**35]), wide) if not noise else undefined_ids())
            frames.append([tid, {"hex": draw(st.binary(max_size=5)).hex()}])
    return {"kind": "types", "noise": noise, "frames": frames}


@st.composite
def _silent(draw, tier):
    K = draw(st.sampled_from([1.0, 2.0, 8.0]))
    offs = sorted(set(draw(st.lists(st.integers(1, 700).map(lambda x: x * 2 + 1), min_size=1, max_size=12))))
    return {"kind": "silent", "K": K, "noise": draw(st.booleans()), "frames": [[o, draw(undefined_ids())] for o in offs]}


@st.composite
def _early(draw, tier):
    return {"kind": "early", "noise": draw(st.booleans()), "login": draw(st.booleans()),
            "trailer": draw(st.lists(st.sampled_from(["ping", "gettime", "ping", "discreq"]), min_size=1, max_size=4)),
            "cuts": sorted(set(draw(st.lists(st.integers(1, 60), max_size=3)))),
            **({"presub": draw(st.lists(st.sampled_from(["ping", "gettime", "discreq"]), min_size=1, max_size=3, unique=True)),
                "late": draw(st.lists(st.sampled_from(["ping", "gettime", "ping", "discreq"]), max_size=3))} if draw(st.booleans()) else {})}


def strategy(tier):
    return st.one_of(_history(tier), _history(tier), _history(tier), _types(tier), _silent(tier), _early(tier))


def enumerated(tier):
    by_id = defined_ids()
    hi = 400 if tier == "quick" else 65535
    step = 40
    ids_ = [i for i in range(0, hi + 1) if i not in (2, 4, 5)]
    for lo in range(0, len(ids_), step):
        yield {"kind": "types", "noise": (lo // step) % 2 == 1, "frames": [[t, {"hex": ""}] for t in ids_[lo : lo + step]]}
    yield {"kind": "types", "noise": False, "frames": [[t, {"hex": ""}] for t in (0, 124, 125, 65535, 65536, 2**21, 2**28, 2**35)]}
    for k in (16, 32, 35, 63):
        for ids3 in ((7, 36, 26), (8, 25, 1), (5,)):
            yield {"kind": "types", "noise": False, "frames": [[(1 << k) + i, {"hex": ""}] for i in ids3] + [[26, {"key": 1, "state": True}]]}
    for t in (0, 124, 200, 65535):
        yield {"kind": "types", "noise": t != 200, "frames": [[t, {"hex": "08011001"}], [26, {"key": 1, "state": True}], [t, {"hex": "ffff"}]]}
        yield {"kind": "silent", "K": 2.0, "noise": False, "frames": [[o, t] for o in (33, 129, 257, 385, 513, 641)]}
    # one of several subscribers closes the connection from inside its callback; subscribers next to the internal
    # handlers of the peer-request types
    for noise in (False, True):
        for n in (2, 3, 5):
            subs = [{"op": "sub", "id": f"c{k}", "types": [26], "script": [{"at": 1, "do": "close"}] if k == 0 else []} for k in range(n)]
            yield {"kind": "history", "noise": noise, "ops": subs + [{"op": "msg", "type": 26, "payload": {"key": 1}, "merge": True}, {"op": "msg", "type": 26, "payload": {"key": 2}}]}
            yield {"kind": "history", "noise": noise, "ops": list(reversed(subs)) + [{"op": "wait", "type": 26}, {"op": "msg", "type": 26, "payload": {"key": 1}}]}
        for what, tid in (("ping", 7), ("gettime", 36), ("discreq", 5)):
            subs = [{"op": "sub", "id": f"c{k}", "types": [tid, 26], "script": []} for k in range(3)]
            yield {"kind": "history", "noise": noise, "ops": subs + [{"op": "peer", "what": what}, {"op": "msg", "type": 26, "payload": {"key": 2}}]}
    # exactly one (two, three) subscribers of a type, one of which changes the subscription set of that very type from
    # inside its callback, on its first or second invocation; then more messages
    for noise in (False, True):
        for n in (1, 2, 3):
            for do in ("unsub_self", ["sub", [26]], ["sub", [26, 25]], ["unsub", "c1"]):
                for at in (1, 2):
                    if do == ["unsub", "c1"] and n < 2:
                        continue
                    subs = [{"op": "sub", "id": f"c{k}", "types": [26], "script": [{"at": at, "do": do}] if k == 0 else []} for k in range(n)]
                    msgs = [{"op": "msg", "type": 26, "payload": {"key": k}, "merge": k % 2 == 0} for k in range(4)]
                    yield {"kind": "history", "noise": noise, "ops": subs + msgs}
    # a subscription whose type tuple names a type twice: unsubscribing removes it from every type
    for noise in (False, True):
        for types in ([26, 26, 25], [26, 25, 26], [25, 26, 26, 21], [26, 26]):
            for how in ("unsub", "self"):
                sub = {"op": "sub", "id": "c0", "types": types, "script": [{"at": 1, "do": "unsub_self"}] if how == "self" else []}
                msgs = [{"op": "msg", "type": t, "payload": {"key": k}} for k, t in enumerate([26, 25, 21, 26, 25])]
                yield {"kind": "history", "noise": noise, "ops": [sub] + msgs[:1] + ([{"op": "unsub", "id": "c0"}] if how == "unsub" else []) + msgs[1:]}
    # reads that end right behind the next frame's first byte / inside its header
    for noise in (False, True):
        for mis in ([1], [2], [1, 3], [4, 1, 2]):
            msgs = [{"op": "msg", "type": t, "payload": {"key": k}} for k, t in enumerate([26, 25, 21, 26, 27, 26])]
            yield {"kind": "history", "noise": noise, "misalign": mis, "ops": [{"op": "sub", "id": "c0", "types": [26, 25, 21, 27], "script": []}] + msgs[:3] + [{"op": "peer", "what": "ping"}] + msgs[3:]}
            yield {"kind": "history", "noise": noise, "misalign": mis, "ops": [{"op": "sub", "id": "c0", "types": [26, 25, 27], "script": []}, {"op": "msg", "type": 26, "payload": {"key": 1}, "merge": True}, {"op": "msg", "type": 25, "payload": {"key": 2}},
                                                                            {"op": "msg", "type": 27, "payload": {"key": 3, "state": "y" * 200}}, {"op": "msg", "type": 26, "payload": {"key": 4}}]}
    # crossed disconnects: the device's requests arrive while the client's own disconnect is in flight
    for noise in (False, True):
        for what in ("discreq", "ping", "gettime"):
            yield {"kind": "history", "noise": noise, "ops": [{"op": "sub", "id": "c0", "types": [26, 5], "script": []}, {"op": "msg", "type": 26, "payload": {"key": 1}}, {"op": "local_disconnect"},
                                                             {"op": "msg", "type": 26, "payload": {"key": 2}}, {"op": "peer", "what": what}, {"op": "msg", "type": 26, "payload": {"key": 3}}]}
    for noise in (False, True):
        for login in (False, True):
            for frames in (["badstate"], ["state", "badstate", "state2"]):
                for at in (256 * 6, 256 * 7, 256 * 12):
                    yield {"kind": "late_bad_payload", "noise": noise, "login": login, "frames": frames, "at": at}
    # one read carrying a long run of complete frames (a device dumping its states), the session ended right afterwards
    # by the application / by the device's DisconnectRequest at the end of the same read: every frame was delivered
    for noise in (False, True):
        for n in (33, 65, 100, 300):
            run = [{"op": "msg", "type": (26, 25)[k % 2], "payload": {"key": k + 1}, "merge": True} for k in range(n - 1)] + [{"op": "msg", "type": 26, "payload": {"key": n}}]
            yield {"kind": "history", "noise": noise, "ops": [{"op": "sub", "id": "c0", "types": [26, 25], "script": []}] + run}
            yield {"kind": "history", "noise": noise, "ops": [{"op": "sub", "id": "c0", "types": [26, 25, 5], "script": []}] + run[:-1] + [{"op": "msg", "type": 26, "payload": {"key": n}, "merge": True}, {"op": "peer", "what": "discreq"}]}
    for noise in (False, True):
        for what in ("ping", "gettime", "discreq"):
            yield {"kind": "history", "noise": noise, "ops": [{"op": "sub", "id": "c0", "types": [26], "script": []}, {"op": "pause"}, {"op": "peer", "what": "ping"}, {"op": "msg", "type": 26, "payload": {"key": 1}}, {"op": "peer", "what": what}]}
    # several frames in ONE chunk while the client's own disconnect is in flight: each is dispatched, in order
    for noise in (False, True):
        for n in (2, 3, 5):
            yield {"kind": "history", "noise": noise, "ops": [{"op": "sub", "id": "c0", "types": [26, 25], "script": []}, {"op": "local_disconnect"}]
                   + [{"op": "msg", "type": (26, 25)[k % 2], "payload": {"key": k + 1}, "merge": k < n - 1} for k in range(n)] + [{"op": "peer", "what": "ping"}, {"op": "msg", "type": 26, "payload": {"key": 9}}]}
    # two request/response waiters and a plain subscriber on one type, answers coalesced in one chunk
    for noise in (False, True):
        for n in (2, 3):
            yield {"kind": "history", "noise": noise, "ops": [{"op": "sub", "id": "c0", "types": [26], "script": []}, {"op": "wait", "type": 26}, {"op": "wait", "type": 26}]
                   + [{"op": "msg", "type": 26, "payload": {"key": k}, "merge": k < n - 1} for k in range(n)] + [{"op": "msg", "type": 25, "payload": {"key": 9}}, {"op": "msg", "type": 26, "payload": {"key": 5}}]}
    for what in ("ping", "gettime", "discreq"):
        for noise in (False, True):
            for login in (False, True):
                yield {"kind": "early", "noise": noise, "login": login, "trailer": [what], "cuts": []}
                yield {"kind": "early", "noise": noise, "login": login, "trailer": [what], "cuts": [], "presub": ["ping", "gettime", "discreq"], "late": ["ping", "gettime", "discreq"]}
                yield {"kind": "early", "noise": noise, "login": login, "trailer": [], "cuts": [], "presub": [what], "late": ["gettime", "ping", "ping", "discreq"]}
                yield {"kind": "early", "noise": noise, "login": login, "trailer": ["ping", "gettime", what], "cuts": [3, 9]}
            yield {"kind": "history", "noise": noise, "ops": [{"op": "sub", "id": "c0", "types": [26], "script": []}, {"op": "peer", "what": what}, {"op": "msg", "type": 26, "payload": {"key": 3}}, {"op": "peer", "what": "ping"}]}
