"""C17 – one converted callback per subscribed message; camera images reassemble per key.

Layer S, established session.  A case is a list of steps executed on the real client:
subscribe (states / logs / service calls / home-assistant states / advertisements / raw
advertisements / connections-free / voice assistant), unsubscribe, and device chunks of 1-4
messages.  Every user callback appends to a per-subscription record; the oracle is the list of
events the statement assigns to each subscription (messages after its subscription point and
before its unsubscription, in arrival order), with the argument of every state callback judged
by C14's descriptor-driven expected-value function.
"""
from __future__ import annotations

import asyncio

from hypothesis import strategies as st

from vf import pbgen, wire
from vf.props import c14
from vf.runner import CaseResult, HarnessError, Violation
from vf.sess import Session
from vf.simloop import START, IterationCap

ID = "C17"
LEVEL = "exploration"
RULE = (
    "1-14 steps from {subscribe one of 8 subscription kinds (states up to twice; home-assistant states with/without a "
    "request handler; voice assistant with/without audio and announcement handlers and a start handler that returns a "
    "port | returns None | hangs | raises), unsubscribe a returned handle (also from inside its own callback), device "
    "chunk of 1-4 messages}: state messages of all 21 state types (descriptor-driven values), camera chunks for keys "
    "{1,2,3} with 0-5 chunks per image incl. empty chunks, logs, service calls, HA state subscriptions (once T/F), "
    "advertisements (modern/legacy), raw advertisements, connections-free, VA request/audio/announce-finished, foreign "
    "types; plaintext|noise. non-trivial = >=2 camera keys interleaved mid-image, or an unsubscribe with matching "
    "messages after it, or a voice-assistant start."
)
ASSUMPTIONS = [
    "the expected model for a state message is computed from the protobuf descriptor by C14's oracle (vf/props/c14.py), not by the client's converters",
    "a state subscription sees only messages after its own subscription point; each subscribe_states call reassembles camera images independently",
    "voice assistant: only the outcomes the statement defines are asserted (port -> VoiceAssistantResponse(port), None -> VoiceAssistantResponse(error)); a raising start handler and several simultaneously pending starts are generated but the answer is not asserted",
    "order among different subscribers of one message is unspecified; comparisons are per subscription",
]
BUDGET = {"quick": {"examples": 600, "shards": 8}, "thorough": {"examples": 10000, "shards": 16}}
FLOORS = {"camera_interleaved": 0.08, "unsub_then_message": 0.03, "va_start": 0.05}

KINDS = ["states", "logs", "svc", "hastate", "adv", "rawadv", "connfree", "va"]


def V(sig, detail=""):
    return Violation(ID, sig, detail)


def state_classes() -> dict:
    """The state messages, independently of the library's own subscription table: every wire message whose model (C14's
    name-based pairing of api.proto messages with model classes) is an entity state."""
    T = c14.tables()
    M, pb = T["M"], T["pb"]
    return {name: getattr(pb, name) for name, model in T["pairs"].items()
            if isinstance(model, type) and issubclass(model, M.EntityState) and model is not M.EntityState}


def build_msg(m: dict):
    from aioesphomeapi import api_pb2 as pb

    t = m["t"]
    if t == "state":
        return pbgen.build(getattr(pb, m["cls"]), m["spec"])
    if t == "camera":
        return pb.CameraImageResponse(key=m["key"], data=bytes.fromhex(m["data"]), done=bool(m["done"]))
    if t == "log":
        return pbgen.build(pb.SubscribeLogsResponse, m["spec"])
    if t == "svc":
        return pbgen.build(pb.HomeassistantServiceResponse, m["spec"])
    if t == "hastate":
        return pb.SubscribeHomeAssistantStateResponse(entity_id=m["entity_id"], attribute=m["attribute"], once=bool(m["once"]))
    if t == "adv":
        s = m["spec"]
        msg = pb.BluetoothLEAdvertisementResponse(address=s["address"], rssi=s["rssi"], address_type=s["address_type"], name=bytes.fromhex(s["name"]))
        msg.service_uuids.extend(s["service_uuids"])
        for fld in ("service_data", "manufacturer_data"):
            for u, dat in s[fld]:
                e = getattr(msg, fld).add()
                e.uuid = u
                if s["legacy"]:
                    e.legacy_data.extend(bytes.fromhex(dat))
                else:
                    e.data = bytes.fromhex(dat)
        return msg
    if t == "rawadv":
        return pbgen.build(pb.BluetoothLERawAdvertisementsResponse, m["spec"])
    if t == "connfree":
        return pb.BluetoothConnectionsFreeResponse(free=m["free"], limit=m["limit"])
    if t == "va_req":
        r = pb.VoiceAssistantRequest(start=bool(m["start"]), conversation_id=m["cid"], flags=m["flags"], wake_word_phrase=m["wake"])
        if m.get("audio") is not None:
            r.audio_settings.noise_suppression_level = m["audio"][0]
            r.audio_settings.auto_gain = m["audio"][1]
            r.audio_settings.volume_multiplier = m["audio"][2]
        return r
    if t == "va_audio":
        return pb.VoiceAssistantAudio(data=bytes.fromhex(m["data"]), end=bool(m["end"]))
    if t == "va_fin":
        return pb.VoiceAssistantAnnounceFinished(success=bool(m["success"]))
    if t == "foreign":
        return pb.BluetoothGATTNotifyDataResponse(address=1, handle=2, data=b"x")
    raise HarnessError(t)


def adv_expected(s: dict) -> dict:
    def conv(u):
        return f"0000{u[2:].lower()}-0000-1000-8000-00805f9b34fb" if len(u) < 8 else u.lower()

    return {
        "address": s["address"], "rssi": s["rssi"], "address_type": s["address_type"],
        "name": bytes.fromhex(s["name"]).decode("utf-8", errors="replace"),
        "service_uuids": [conv(u) for u in s["service_uuids"]],
        "service_data": {conv(u): bytes.fromhex(d) for u, d in s["service_data"]},
        "manufacturer_data": {int(u, 16): bytes.fromhex(d) for u, d in s["manufacturer_data"]},
    }


# ------------------------------------------------------------------ run
def run_case(case: dict) -> CaseResult:
    from aioesphomeapi import api_pb2 as pb
    from aioesphomeapi import model as M

    res = CaseResult()
    s = Session(noise=bool(case.get("noise")), keepalive=512.0, auto=set())
    env = s.env
    late: list[str] = []
    got: dict[str, list] = {}        # subscription id -> events actually delivered
    exp: dict[str, list] = {}        # subscription id -> events expected
    subs: dict[str, dict] = {}       # live model subscriptions
    handles: dict[str, object] = {}
    exp_writes: list = []
    va_resp_expected: list = []
    va_unasserted = [0]
    classes: set[str] = set()
    unsub_from_cb: dict[str, int] = {}
    stC = state_classes()
    by_cls = wire.ids()[1]

    def record(sid, ev):
        got.setdefault(sid, []).append(ev)
        n = unsub_from_cb.get(sid)
        if n is not None and len(got[sid]) == n and sid in handles:
            handles[sid]()
            model_unsub(sid, from_cb=True)

    ended: dict[str, str] = {}

    def model_unsub(sid, from_cb=False):
        sub = subs.pop(sid, None)
        if sub is None:
            return
        sub["dead"] = True
        ended[sid] = sub["kind"]
        if sub["kind"] == "va":
            unf = sub.get("unfinished", [])
            if unf and sub.get("latest_unfinished"):
                last = unf.pop()
                if last["delayed"]:  # cancelled by the unsubscribe before it could answer
                    va_resp_expected.remove((last["port"], False))
            if any(u["delayed"] for u in unf):
                classes.add("va_multi_pending")  # an older start still pending at unsubscribe: answer unspecified
        if sub["kind"] in ("adv", "rawadv"):
            exp_writes.append("UnsubscribeBluetoothLEAdvertisementsRequest")
        elif sub["kind"] == "va":
            exp_writes.append("SubscribeVoiceAssistantRequest")

    log_cb: dict = {}

    def do_sub(step):
        sid, kind = step["id"], step["kind"]
        cli = s.cli
        sub = {"kind": kind, "opts": step, "images": {}, "dead": False}
        if "unsub_after" in step:
            unsub_from_cb[sid] = step["unsub_after"]
        if kind == "states":
            cli.subscribe_states(lambda st_, sid=sid: record(sid, ("state", st_)))
            exp_writes.append("SubscribeStatesRequest")
        elif kind == "logs":
            log_cb[sid] = lambda m, sid=sid: record(sid, ("log", m.SerializeToString()))
            cli.subscribe_logs(log_cb[sid], log_level=step.get("level"), dump_config=step.get("dump"))
            exp_writes.append("SubscribeLogsRequest")
        elif kind == "svc":
            cli.subscribe_service_calls(lambda c, sid=sid: record(sid, ("svc", c)))
            exp_writes.append("SubscribeHomeassistantServicesRequest")
        elif kind == "hastate":
            cli.subscribe_home_assistant_states(
                lambda e, a, sid=sid: record(sid, ("sub", e, a)),
                (lambda e, a, sid=sid: record(sid, ("req", e, a))) if step.get("with_request") else None)
            exp_writes.append("SubscribeHomeAssistantStatesRequest")
        elif kind == "adv":
            handles[sid] = cli.subscribe_bluetooth_le_advertisements(lambda a, sid=sid: record(sid, ("adv", a)))
            exp_writes.append("SubscribeBluetoothLEAdvertisementsRequest")
        elif kind == "rawadv":
            handles[sid] = cli.subscribe_bluetooth_le_raw_advertisements(lambda m, sid=sid: record(sid, ("rawadv", m.SerializeToString())))
            exp_writes.append("SubscribeBluetoothLEAdvertisementsRequest")
        elif kind == "connfree":
            handles[sid] = cli.subscribe_bluetooth_connections_free(lambda f, l, sid=sid: record(sid, ("connfree", f, l)))
            exp_writes.append("SubscribeBluetoothConnectionsFreeRequest")
        elif kind == "va":
            beh = list(step.get("start_behaviour") or ["port"])
            n_start = [0]

            async def handle_start(cid, flags, audio, wake, sid=sid):
                b = beh[min(n_start[0], len(beh) - 1)]
                n_start[0] += 1
                record(sid, ("start", cid, flags, audio, wake))
                if b == "hang":
                    await env.loop.create_future()
                if b == "raise":
                    raise ValueError("pipeline failed")
                if isinstance(b, list):  # ["delay", port]
                    await asyncio.sleep(1 / 128)  # strictly inside every 'yield' step: never ties with an unsubscribe
                    return b[1]
                return {"port": 4242, "none": None}.get(b, b if isinstance(b, int) else None)

            async def handle_stop(aborted, sid=sid):
                record(sid, ("stop", aborted))

            async def handle_audio(data, sid=sid):
                record(sid, ("audio", bytes(data)))

            async def handle_fin(f, sid=sid):
                record(sid, ("fin", f))

            handles[sid] = cli.subscribe_voice_assistant(
                handle_start=handle_start, handle_stop=handle_stop,
                handle_audio=handle_audio if step.get("audio") else None,
                handle_announcement_finished=handle_fin if step.get("fin") else None)
            exp_writes.append("SubscribeVoiceAssistantRequest")
            sub["beh"], sub["n_start"] = beh, 0
        subs[sid] = sub
        exp.setdefault(sid, [])

    def model_msg(m):
        t = m["t"]
        for sid, sub in list(subs.items()):
            if sub["dead"]:
                continue
            k = sub["kind"]
            n0 = len(exp[sid])
            if k == "states":
                if t == "state":
                    exp[sid].append(("state", m))
                elif t == "camera":
                    parts = sub["images"].setdefault(m["key"], [])
                    parts.append(bytes.fromhex(m["data"]))
                    if m["done"]:
                        exp[sid].append(("camera", m["key"], b"".join(parts)))
                        del sub["images"][m["key"]]
                    if len([k_ for k_, v in sub["images"].items() if v or True]) >= 2:
                        classes.add("camera_interleaved")
            elif k == "logs" and t == "log":
                exp[sid].append(("log", build_msg(m).SerializeToString()))
            elif k == "svc" and t == "svc":
                exp[sid].append(("svc", m))
            elif k == "hastate" and t == "hastate":
                which = "req" if (m["once"] and sub["opts"].get("with_request")) else "sub"
                exp[sid].append((which, m["entity_id"], m["attribute"]))
            elif k == "adv" and t == "adv":
                exp[sid].append(("adv", m))
            elif k == "rawadv" and t == "rawadv":
                exp[sid].append(("rawadv", build_msg(m).SerializeToString()))
            elif k == "connfree" and t == "connfree":
                exp[sid].append(("connfree", m["free"], m["limit"]))
            elif k == "va":
                if t == "va_req":
                    if m["start"]:
                        classes.add("va_start")
                        exp[sid].append(("start", m))
                        b = sub["beh"][min(sub["n_start"], len(sub["beh"]) - 1)]
                        sub["n_start"] += 1
                        # start tasks that have not finished yet: a delayed one finishes at the next 'yield' step
                        sub.setdefault("unfinished", []).append({"delayed": isinstance(b, list), "port": b[1] if isinstance(b, list) else None, "hang": b == "hang"})
                        if not (isinstance(b, list) or b == "hang"):
                            sub["unfinished"].pop()
                            sub["latest_unfinished"] = False
                        else:
                            sub["latest_unfinished"] = True
                        if b == "port":
                            va_resp_expected.append((4242, False))
                        elif b == "none":
                            va_resp_expected.append((0, True))
                        elif isinstance(b, list):
                            va_resp_expected.append((b[1], False))
                        elif isinstance(b, int):
                            va_resp_expected.append((b, False))
                        elif b == "raise":
                            va_unasserted[0] += 1
                        elif b == "hang":
                            sub["hanging"] = sub.get("hanging", 0) + 1
                    else:
                        exp[sid].append(("stop", True))
                elif t == "va_audio" and sub["opts"].get("audio"):
                    exp[sid].append(("stop", False) if m["end"] else ("audio", bytes.fromhex(m["data"])))
                elif t == "va_fin" and sub["opts"].get("fin"):
                    exp[sid].append(("fin", bool(m["success"])))
            # scripted unsubscribe from inside the callback takes effect at once
            n = unsub_from_cb.get(sid)
            if n is not None and n0 < n <= len(exp[sid]) and sid in handles:
                del exp[sid][n:]
                model_unsub(sid)
                classes.add("unsub_in_callback")

    after_unsub_msgs = [0]

    async def then(sess: Session):
        tr = sess.dsess.transport
        dead_kinds: set[str] = set()
        misalign = case.get("misalign", 0)
        mis_list = list(misalign) if isinstance(misalign, list) else ([int(misalign)] if misalign else [])
        n_mis = [0]
        skipped = [0]
        enc_cache: dict = {}
        for si, step in enumerate(case["steps"]):
            if sess.conn.connection_state.name != "CONNECTED":
                break
            op = step["op"]
            if op == "sub":
                do_sub(step)
            elif op == "unsub":
                h = handles.get(step["id"])
                if h is not None and step["id"] in subs:
                    dead_kinds.add(subs[step["id"]]["kind"])
                    if subs[step["id"]].get("hanging"):
                        classes.add("va_unsub_while_start_pending")
                    h()
                    model_unsub(step["id"])
            elif op == "relog":
                # the only way to change the level of a running log subscription: subscribe again with the SAME handler.
                # It stays one subscriber: one callback per log message
                if step["id"] in log_cb and step["id"] in subs:
                    classes.add("log_resubscribed_same_handler")
                    s.cli.subscribe_logs(log_cb[step["id"]], log_level=step.get("level"), dump_config=step.get("dump"))
                    exp_writes.append("SubscribeLogsRequest")
            elif op == "unsub_again":
                # the used-up unsubscribe function of an ended subscription is called once more: a no-op
                # (only for the kinds whose unsubscribe function writes nothing)
                h = handles.get(step["id"])
                if h is not None and ended.get(step["id"]) == "connfree":
                    classes.add("redundant_unsub")
                    h()
            elif op == "chunk":
                # (frames are encoded once, in stream order -- over Noise the nonce sequence depends on it)
                frames_ = enc_cache.pop(si, None) or [sess.dsess.encode(build_msg(m)) for m in step["msgs"]]
                data = b"".join(frames_)
                if mis_list:
                    # TCP reads not aligned to frames: this read ends `misalign` bytes into the first frame of the next
                    # chunk step, whose remaining bytes arrive at that step -- delivery instants unchanged
                    data = data[skipped[0]:]
                    skipped[0] = 0
                    nj = next((j for j in range(si + 1, len(case["steps"])) if case["steps"][j]["op"] == "chunk"), None)
                    if nj is not None and case["steps"][nj]["msgs"]:
                        enc_cache[nj] = [sess.dsess.encode(build_msg(m)) for m in case["steps"][nj]["msgs"]]
                        k_ = mis_list[n_mis[0] % len(mis_list)]
                        n_mis[0] += 1
                        skipped[0] = max(0, min(k_, len(enc_cache[nj][0]) - 1))  # never a complete frame ahead of its step
                        data += b"".join(enc_cache[nj])[:skipped[0]]
                        classes.add("reads_not_aligned_to_frames")
                for m in step["msgs"]:
                    if {"adv": "adv", "rawadv": "rawadv", "connfree": "connfree", "va_req": "va", "va_audio": "va", "va_fin": "va"}.get(m["t"]) in dead_kinds:
                        classes.add("unsub_then_message")
                    model_msg(m)
                tr.feed(data)
                # "each message produces ... a callback": when the read that completes the message has been processed,
                # not whenever enough later bytes have piled up (synchronous subscriptions only; voice-assistant handlers are tasks)
                for sid_, sub_ in subs.items():
                    if sub_["kind"] != "va" and not sub_["dead"] and sess.conn.connection_state.name == "CONNECTED" and len(got.get(sid_, [])) < len(exp.get(sid_, [])) and not late:
                        late.append(f"subscription {sid_} ({sub_['kind']}): {len(got.get(sid_, []))} callbacks when the read completing message #{len(exp[sid_])} had been processed")
            elif op == "yield":
                await asyncio.sleep(step.get("d", 1) / 64)
                for sub in subs.values():
                    if sub["kind"] == "va":
                        sub["unfinished"] = [u for u in sub.get("unfinished", []) if not u["delayed"]]
                        if not sub["unfinished"]:
                            sub["latest_unfinished"] = False
                        elif sub.get("latest_unfinished") and not sub["unfinished"][-1]["hang"]:
                            sub["latest_unfinished"] = False
        await asyncio.sleep(4 / 64)
        env.log("steps_done")
        if sess.conn.connection_state.name == "CONNECTED":
            await sess.cli.disconnect(force=True)

    s.start(then)
    env.loop.horizon = START + 300
    try:
        s.run()
    except IterationCap as e:
        s.close()
        raise HarnessError(f"C17: {e}") from e
    if s.t0 is None:
        s.close()
        raise HarnessError("C17: session not established")
    mr = env.results.get("main")
    if mr is None or mr[0] != "ok":
        # an exception out of a subscribe_* call / unsubscribe handle, or a session closed by a valid message
        e = mr[1] if mr else None
        res.violations.append(V(f"c17:scenario-raised:{type(e).__name__}", repr(e)[:300]))
        s.close()
        return res
    if not any(e["kind"] == "steps_done" for e in env.trace):
        res.violations.append(V("c17:session-closed-by-valid-traffic", ""))
    # ---- compare per subscription
    for sid in sorted(set(exp) | set(got)):
        g, x = got.get(sid, []), exp.get(sid, [])
        kind = next((st_["kind"] for st_ in case["steps"] if st_["op"] == "sub" and st_["id"] == sid), "?")
        if len(g) != len(x):
            sig = "extra-callback" if len(g) > len(x) else "missing-callback"
            res.violations.append(V(f"c17:{kind}:{sig}", f"subscription {sid}: {len(g)} callbacks, expected {len(x)}; got kinds {[e[0] for e in g][:12]} expected {[e[0] for e in x][:12]}"))
            continue
        for i, (ge, xe) in enumerate(zip(g, x)):
            bad = compare_event(ge, xe, M, pb)
            if bad:
                res.violations.append(V(f"c17:{kind}:{bad[0]}", f"subscription {sid} callback #{i}: {bad[1]}"))
                break
    # ---- frames written by the client (subscribe / unsubscribe requests, voice-assistant answers)
    c0 = next(e["seq"] for e in env.trace if e["kind"] == "connected")
    c1 = next((e["seq"] for e in env.trace if e["kind"] == "steps_done"), 10**9)
    names = wire.ids()[0]
    wrote = [(names[e["type"]].__name__, e["payload"]) for e in env.trace if e["kind"] == "rx" and c0 < e["seq"] < c1]
    va_resp = []
    non_va = []
    for n, p in wrote:
        if n == "VoiceAssistantResponse":
            r = pb.VoiceAssistantResponse.FromString(p)
            va_resp.append((r.port, r.error))
        else:
            non_va.append(n)
    if non_va != exp_writes:
        res.violations.append(V("c17:requests-written", f"client wrote {non_va}, expected {exp_writes}"))
    if va_unasserted[0] == 0 and "va_multi_pending" not in classes:
        if sorted(va_resp) != sorted(va_resp_expected):
            res.violations.append(V("c17:va:start-answer", f"VoiceAssistantResponse frames (port, error) {va_resp}, expected {va_resp_expected}"))
    # subscribe request contents
    for n, p in wrote:
        if n == "SubscribeVoiceAssistantRequest":
            pass
    if any(sum(len(v) for v in st_.get("images", {}).values()) for st_ in subs.values()):
        classes.add("camera_partial_at_end")
    res.classes = sorted(classes | ({"noise"} if case.get("noise") else set()))
    if late and not res.violations:
        res.violations.append(Violation(ID, "c17:callback-not-at-arrival", late[0]))
    res.nontrivial = bool(classes & {"camera_interleaved", "unsub_then_message", "va_start", "unsub_in_callback"})
    res.info = {"subscriptions": len(exp), "callbacks": sum(len(v) for v in got.values())}
    s.close()
    return res


def compare_event(ge, xe, M, pb):
    """None if the delivered event equals the expected one, else (signature-part, detail)."""
    k = xe[0]
    if ge[0] != k and not (k in ("state", "camera") and ge[0] == "state"):
        return ("wrong-handler", f"got {ge[0]} expected {k}")
    if k == "state":
        m = xe[1]
        msg = build_msg(m)
        mcls = c14.tables()["pairs"][m["cls"]]
        out: list = []
        c14.check_obj(ge[1], mcls, msg, mcls.__name__, out, set())
        if out:
            return ("state-value", f"{m['cls']}: {out[0].signature} {out[0].detail}")
        return None
    if k == "camera":
        o = ge[1]
        if type(o).__name__ != "CameraState" or o.key != xe[1] or bytes(o.data) != xe[2]:
            return ("camera-image", f"got {type(o).__name__}(key={getattr(o, 'key', None)}, {len(getattr(o, 'data', b''))} bytes {bytes(getattr(o, 'data', b''))[:12].hex()}), expected key={xe[1]} {len(xe[2])} bytes {xe[2][:12].hex()}")
        return None
    if k == "svc":
        msg = build_msg(xe[1])
        out = []
        c14.check_obj(ge[1], M.HomeassistantServiceCall, msg, "HomeassistantServiceCall", out, set())
        return ("service-call-value", out[0].detail) if out else None
    if k == "adv":
        want = adv_expected(xe[1]["spec"])
        for f, v in want.items():
            if getattr(ge[1], f) != v:
                return ("advertisement-value", f"{f}: got {getattr(ge[1], f)!r} expected {v!r}")
        return None
    if k == "start":
        m = xe[1]
        _, cid, flags, audio, wake = ge
        a = m.get("audio") or [0, 0, 0.0]
        ok = (cid == m["cid"] and flags == m["flags"] and wake == (m["wake"] or None) and type(audio).__name__ == "VoiceAssistantAudioSettings"
              and audio.noise_suppression_level == a[0] and audio.auto_gain == a[1] and c14.feq(float(audio.volume_multiplier), pbgen.f32_from_bits(pbgen.f32_bits(a[2]))))
        return None if ok else ("va-start-arguments", f"got {(cid, flags, audio, wake)} expected {(m['cid'], m['flags'], a, m['wake'] or None)}")
    if k == "fin":
        return None if (type(ge[1]).__name__ == "VoiceAssistantAnnounceFinished" and ge[1].success == xe[1]) else ("va-finished-value", f"{ge[1]!r}")
    if tuple(ge) != tuple(xe):
        return ("value", f"got {ge!r} expected {xe!r}")
    return None


# ------------------------------------------------------------------ generators
def _state_msg():
    stC = state_classes()
    names = sorted(stC)

    @st.composite
    def g(draw):
        n = draw(st.sampled_from(names))
        return {"t": "state", "cls": n, "spec": draw(pbgen.message_strategy(stC[n]))}

    return g()


HEXD = st.binary(max_size=6).map(bytes.hex)


@st.composite
def _message(draw, kinds_live):
    from aioesphomeapi import api_pb2 as pb

    pool = ["state", "state", "camera", "camera", "camera"] if "states" in kinds_live else ["state", "camera"]
    for k, ts in (("logs", ["log"]), ("svc", ["svc"]), ("hastate", ["hastate", "hastate"]), ("adv", ["adv", "adv"]), ("rawadv", ["rawadv"]),
                  ("connfree", ["connfree", "connfree"]), ("va", ["va_req", "va_req", "va_audio", "va_audio", "va_fin"])):
        pool += ts * (3 if k in kinds_live else 1)
    pool.append("foreign")
    t = draw(st.sampled_from(pool))
    if t == "state":
        return draw(_state_msg())
    if t == "camera":
        return {"t": "camera", "key": draw(st.sampled_from([1, 2, 3])), "data": draw(st.one_of(st.just(""), HEXD, HEXD)), "done": draw(st.integers(0, 3)) == 0}
    if t == "log":
        return {"t": "log", "spec": draw(pbgen.message_strategy(pb.SubscribeLogsResponse))}
    if t == "svc":
        return {"t": "svc", "spec": draw(pbgen.message_strategy(pb.HomeassistantServiceResponse, c14.OVERRIDES))}
    if t == "hastate":
        return {"t": "hastate", "entity_id": draw(st.sampled_from(["sensor.a", "light.b", ""])), "attribute": draw(st.sampled_from(["", "brightness"])), "once": draw(st.booleans())}
    if t == "adv":
        return {"t": "adv", "spec": draw(c14._adv("quick"))["spec"]}
    if t == "rawadv":
        return {"t": "rawadv", "spec": draw(pbgen.message_strategy(pb.BluetoothLERawAdvertisementsResponse))}
    if t == "connfree":
        return {"t": "connfree", "free": draw(st.integers(0, 5)), "limit": draw(st.integers(0, 5))}
    if t == "va_req":
        return {"t": "va_req", "start": draw(st.integers(0, 2)) != 0, "cid": draw(st.sampled_from(["", "conv-1"])), "flags": draw(st.sampled_from([0, 1, 3])),
                "wake": draw(st.sampled_from(["", "okay nabu"])), "audio": draw(st.sampled_from([None, [1, 2, 1.5], [0, 0, 0.0], [4, 31, 0.1]]))}
    if t == "va_audio":
        return {"t": "va_audio", "data": draw(HEXD), "end": draw(st.integers(0, 3)) == 0}
    if t == "va_fin":
        return {"t": "va_fin", "success": draw(st.booleans())}
    return {"t": "foreign"}


@st.composite
def _case(draw, tier):
    steps = []
    live: dict[str, str] = {}
    n_states = 0
    va_pending_hang = False
    nsteps = draw(st.integers(2, 14))
    i = 0
    ended_connfree: list[str] = []
    for _ in range(nsteps):
        r = draw(st.integers(0, 9))
        log_ids = [sid for sid, k in live.items() if k == "logs"]
        if r == 8 and log_ids and draw(st.booleans()):
            steps.append({"op": "relog", "id": log_ids[0], "level": draw(st.sampled_from([None, 1, 5, 7])), "dump": draw(st.sampled_from([None, True]))})
            continue
        if r == 9 and ended_connfree:
            steps.append({"op": "unsub_again", "id": draw(st.sampled_from(ended_connfree))})
            continue
        if r <= 2 or not live:
            kind = draw(st.sampled_from(KINDS + ["states", "va"]))
            if kind == "states" and n_states >= 2:
                kind = "connfree"
            if kind in live.values() and kind != "states":
                continue
            sid = f"s{i}"
            i += 1
            step = {"op": "sub", "id": sid, "kind": kind}
            if kind == "states":
                n_states += 1
            if kind == "logs":
                step["level"] = draw(st.sampled_from([None, 0, 5, 7]))
                step["dump"] = draw(st.sampled_from([None, True, False]))
            if kind == "hastate":
                step["with_request"] = draw(st.booleans())
            if kind == "va":
                step["audio"] = draw(st.booleans())
                step["fin"] = draw(st.booleans())
                step["start_behaviour"] = draw(st.lists(st.sampled_from(["port", "port", "none", ["delay", 5000], "raise", 1, 65535]), min_size=1, max_size=3))
                if draw(st.integers(0, 3)) == 0:
                    step["start_behaviour"].append("hang")
            if kind in ("adv", "rawadv", "connfree") and draw(st.integers(0, 4)) == 0:
                step["unsub_after"] = draw(st.integers(1, 3))
            steps.append(step)
            live[sid] = kind
        elif r == 3:
            cands = [sid for sid, k in live.items() if k in ("adv", "rawadv", "connfree", "va")]
            if cands:
                sid = draw(st.sampled_from(cands))
                steps.append({"op": "unsub", "id": sid})
                if live[sid] == "connfree":
                    ended_connfree.append(sid)
                del live[sid]
        elif r == 4:
            steps.append({"op": "yield", "d": draw(st.sampled_from([1, 2]))})
        else:
            kinds_live = set(live.values())
            msgs = [draw(_message(kinds_live)) for _ in range(draw(st.sampled_from([1, 1, 2, 3, 4])))]
            steps.append({"op": "chunk", "msgs": msgs})
    return {"noise": draw(st.integers(0, 3)) == 0, "steps": steps}


@st.composite
def _camera_case(draw, tier):
    """Interleaved multi-chunk camera streams over keys {1,2,3}, a second subscribe_states mid-stream."""
    msgs = []
    for _ in range(draw(st.integers(3, 22))):
        if draw(st.integers(0, 6)) == 0:
            msgs.append(draw(_state_msg()))
        else:
            msgs.append({"t": "camera", "key": draw(st.sampled_from([1, 2, 3])), "data": draw(st.one_of(st.just(""), HEXD, HEXD)), "done": draw(st.integers(0, 3)) == 0})
    steps = [{"op": "sub", "id": "s0", "kind": "states"}]
    second_at = draw(st.one_of(st.none(), st.integers(0, len(msgs))))
    i = 0
    while i < len(msgs):
        n = draw(st.sampled_from([1, 1, 2, 3, 5]))
        if second_at is not None and i <= second_at < i + n:
            n = max(1, second_at - i)
        steps.append({"op": "chunk", "msgs": msgs[i:i + n]})
        i += n
        if second_at is not None and i >= second_at and not any(s_.get("id") == "s1" for s_ in steps):
            steps.append({"op": "sub", "id": "s1", "kind": "states"})
    return {"noise": draw(st.integers(0, 3)) == 0, "steps": steps}


@st.composite
def _va_case(draw, tier):
    beh = draw(st.lists(st.sampled_from(["port", "none", ["delay", 5000], ["delay", 6000], 1, 65535, "raise"]), min_size=1, max_size=3))
    if draw(st.booleans()):
        beh.append("hang")
    steps = [{"op": "sub", "id": "s0", "kind": "va", "audio": draw(st.booleans()), "fin": draw(st.booleans()), "start_behaviour": beh}]
    unsubbed = False
    for _ in range(draw(st.integers(1, 8))):
        r = draw(st.integers(0, 7))
        if r == 0 and not unsubbed:
            steps.append({"op": "unsub", "id": "s0"})
            unsubbed = True
        elif r <= 2:
            steps.append({"op": "yield", "d": draw(st.sampled_from([1, 2]))})
        else:
            steps.append({"op": "chunk", "msgs": [draw(_message({"va"})) for _ in range(draw(st.sampled_from([1, 2, 3])))]})
    return {"noise": draw(st.integers(0, 3)) == 0, "steps": steps}


def strategy(tier):
    base = st.one_of(_case(tier), _case(tier), _camera_case(tier), _va_case(tier))

    @st.composite
    def with_misalign(draw):
        c = draw(base)
        if draw(st.integers(0, 3)) == 0:
            c = {**c, "misalign": draw(st.one_of(st.sampled_from([1, 2, 3, 5, 9]), st.lists(st.sampled_from([0, 1, 2, 3, 4, 5, 9, 20]), min_size=2, max_size=4)))}
        return c

    return with_misalign()


def enumerated(tier):
    cam = lambda k, d, done: {"t": "camera", "key": k, "data": d, "done": done}  # noqa: E731
    stream = [cam(1, "aa" * 40, False), cam(2, "bb" * 30, False), cam(1, "cc" * 50, True), {"t": "connfree", "free": 1, "limit": 3}, cam(2, "dd" * 20, True), cam(1, "ee", True)]
    for mis in (1, 2, 3, 7, [5, 2], [9, 1, 4, 2], [3, 1], [20, 2, 0, 1]):
        for n in (1, 2, 3):
            for noise in (False, True):
                yield {"noise": noise, "misalign": mis, "steps": [{"op": "sub", "id": "s0", "kind": "states"}, {"op": "sub", "id": "s1", "kind": "connfree"}] + [{"op": "chunk", "msgs": stream[i:i + n]} for i in range(0, len(stream), n)]}
    # a large frame split behind its header whose completing read ends inside the next header, then small frames
    big = {"t": "state", "cls": "TextSensorStateResponse", "spec": {"key": 1, "state": "x" * 90, "missing_state": False}}
    small = [{"t": "state", "cls": "SwitchStateResponse", "spec": {"key": k, "state": True}} for k in (2, 3, 4, 5)]
    for mis in ([5, 2, 0, 0, 0], [9, 1, 0, 0, 0], [4, 2, 1, 0, 0], [20, 1, 2, 1, 0]):
        for noise in (False, True):
            yield {"noise": noise, "misalign": mis, "steps": [{"op": "sub", "id": "s0", "kind": "states"}, {"op": "chunk", "msgs": [small[0]]}, {"op": "chunk", "msgs": [big]}] + [{"op": "chunk", "msgs": [m]} for m in small[1:]] + [{"op": "chunk", "msgs": [small[0]]}]}
    stC = state_classes()
    # every state type once with default and one non-default message, after subscribe_states
    msgs = []
    for n in sorted(stC):
        msgs.append({"t": "state", "cls": n, "spec": {}})
        msgs.append({"t": "state", "cls": n, "spec": {"key": 7}})
    for noise in (False, True):
        yield {"noise": noise, "steps": [{"op": "sub", "id": "s0", "kind": "states"}] + [{"op": "chunk", "msgs": msgs[i:i + 4]} for i in range(0, len(msgs), 4)]}
    # all interleavings of two 2-chunk camera streams (keys 1,2) + a third key completing in between
    import itertools

    a = [("1", "aa", False), ("1", "bb", True)]
    b = [("2", "cc", False), ("2", "dd", True)]
    for order in set(itertools.permutations("aabb")):
        ia, ib = iter(a), iter(b)
        seq = [next(ia) if c == "a" else next(ib) for c in order]
        for third in (None, 1, 3):
            ms = [{"t": "camera", "key": int(k), "data": d, "done": dn} for k, d, dn in seq]
            if third is not None:
                ms.insert(third, {"t": "camera", "key": 3, "data": "ee", "done": True})
            yield {"noise": False, "steps": [{"op": "sub", "id": "s0", "kind": "states"}, {"op": "chunk", "msgs": ms[:2]}, {"op": "sub", "id": "s1", "kind": "states"}, {"op": "chunk", "msgs": ms[2:]},
                                             {"op": "chunk", "msgs": [{"t": "camera", "key": 1, "data": "ff", "done": True}, {"t": "camera", "key": 2, "data": "", "done": True}]}]}
    # home-assistant states: once x with/without request handler
    for wr in (False, True):
        yield {"noise": False, "steps": [{"op": "sub", "id": "s0", "kind": "hastate", "with_request": wr}, {"op": "chunk", "msgs": [
            {"t": "hastate", "entity_id": "sensor.a", "attribute": "", "once": o} for o in (False, True, True, False)]}]}
    # voice assistant: each start behaviour, with/without optional handlers, unsubscribe mid-stream
    req = {"t": "va_req", "start": True, "cid": "c", "flags": 1, "wake": "", "audio": [1, 2, 1.5]}
    for beh in ("port", "none", ["delay", 7000], 1, "hang"):
        for audio in (False, True):
            for fin in (False, True):
                yield {"noise": audio and fin, "steps": [
                    {"op": "sub", "id": "s0", "kind": "va", "audio": audio, "fin": fin, "start_behaviour": [beh]},
                    {"op": "chunk", "msgs": [req, {"t": "va_audio", "data": "0102", "end": False}, {"t": "va_audio", "data": "", "end": True}]},
                    {"op": "yield", "d": 2},
                    {"op": "chunk", "msgs": [{"t": "va_fin", "success": True}, {**req, "start": False}]},
                    {"op": "unsub", "id": "s0"},
                    {"op": "chunk", "msgs": [req, {"t": "va_audio", "data": "03", "end": False}, {"t": "va_fin", "success": False}]},
                    {"op": "yield", "d": 2}]}
    # unsubscribe handles stop deliveries at once (also from inside the callback, mid-chunk)
    for kind, msg in (("adv", {"t": "adv", "spec": {"address": 1, "rssi": -60, "address_type": 0, "name": "61", "service_uuids": ["0x180F"], "service_data": [["0x180F", "01"]], "manufacturer_data": [["0x004C", "02"]], "legacy": False}}),
                      ("rawadv", {"t": "rawadv", "spec": {"advertisements": [{"address": 5, "rssi": -1, "data": {"hex": "0201"}}]}}),
                      ("connfree", {"t": "connfree", "free": 2, "limit": 3})):
        yield {"noise": False, "steps": [{"op": "sub", "id": "s0", "kind": kind}, {"op": "chunk", "msgs": [msg, msg]}, {"op": "unsub", "id": "s0"}, {"op": "chunk", "msgs": [msg]}]}
    # the log level of a running subscription is changed by subscribing again with the same handler (once, twice)
    lg = {"t": "log", "spec": {"level": 3, "message": {"hex": "6869"}, "send_failed": False}}
    for noise in (False, True):
        yield {"noise": noise, "steps": [{"op": "sub", "id": "s0", "kind": "logs", "level": 5, "dump": None}, {"op": "chunk", "msgs": [lg]}, {"op": "relog", "id": "s0", "level": 7, "dump": True},
                                         {"op": "chunk", "msgs": [lg, lg]}, {"op": "relog", "id": "s0", "level": 1, "dump": None}, {"op": "chunk", "msgs": [lg]}]}
    # a second consumer of the same kind joins (its own handler) and leaves: the first one keeps receiving throughout
    two = {"logs": lg, "connfree": {"t": "connfree", "free": 1, "limit": 3}, "rawadv": {"t": "rawadv", "spec": {"advertisements": [{"address": 5, "rssi": -1, "data": {"hex": "0201"}}]}},
           "svc": {"t": "svc", "spec": {"service": "a.b"}}, "states": {"t": "state", "cls": "SwitchStateResponse", "spec": {"key": 1, "state": True}}}
    for kind, m in two.items():
        for noise in (False, True):
            extra = {"level": 5, "dump": None} if kind == "logs" else {}
            yield {"noise": noise, "steps": [{"op": "sub", "id": "s0", "kind": kind, **extra}, {"op": "chunk", "msgs": [m]}, {"op": "sub", "id": "s1", "kind": kind, **({"level": 7, "dump": None} if kind == "logs" else {})},
                                             {"op": "chunk", "msgs": [m, m]}, {"op": "unsub", "id": "s1"}, {"op": "chunk", "msgs": [m]}, {"op": "unsub", "id": "s0"}, {"op": "chunk", "msgs": [m]}]}
    # a used-up unsubscribe function called again must not touch the subscription that replaced it
    cf = {"t": "connfree", "free": 1, "limit": 3}
    for noise in (False, True):
        yield {"noise": noise, "steps": [{"op": "sub", "id": "s0", "kind": "connfree"}, {"op": "chunk", "msgs": [cf]}, {"op": "unsub", "id": "s0"}, {"op": "sub", "id": "s1", "kind": "connfree"},
                                         {"op": "unsub_again", "id": "s0"}, {"op": "chunk", "msgs": [cf, cf]}, {"op": "unsub_again", "id": "s0"}, {"op": "chunk", "msgs": [cf]}]}
        yield {"noise": True, "steps": [{"op": "sub", "id": "s0", "kind": kind, "unsub_after": 2}, {"op": "chunk", "msgs": [msg, msg, msg, msg]}, {"op": "chunk", "msgs": [msg]}]}
