"""C04 – encrypted transport fails closed with a specific error; no forged delivery.

Fault enumeration.  A valid session transcript (hello, handshake, 1-8 data frames)
from the reference responder, then exactly one deviation, enumerated where finite:
every byte flip, every truncation length, duplicate / swap / drop of every frame,
wrong marker at every frame start, flips in the outer length bytes, handshake error
frames, unknown selector, empty hello, name mismatch, handshake flips, the other
framing, and key strings.  Oracle: (1) deliveries are byte-exact the prefix of the
real messages that precedes the deviation; (2) the first failing complete frame
reports the specific error class, closes the transport, and nothing that follows is
delivered (same chunk included); (3) a pending readiness wait fails with that class
(layer S: APIClient.connect raises it); (4) key strings judged by an RFC 4648 table
decoder written here.
"""
from __future__ import annotations

import base64
import string

from hypothesis import strategies as st

from vf import fstub, gen, noise_ref, wire
from vf.runner import CaseResult, HarnessError, Violation

ID = "C04"
LEVEL = "fault_enumeration"
RULE = (
    "fault enumeration: per transcript (key, ephemeral seed, name, 1-8 data frames) every single-frame deviation - flip "
    "of each ciphertext byte (mask 0x01; thorough also 0x80), truncation to every shorter length, duplicate/swap/drop of "
    "each frame, marker byte in {0x00,0x02,0x7f,0xff} at each frame start, flips of the two outer length bytes - and every "
    "handshake-phase deviation (error frame 'Handshake MAC failure' / other text, selector != 0x01, empty hello, marker, "
    "mismatching name, flip of each handshake byte >= 1, responder with a different key), each fed as one chunk, "
    "frame-aligned chunks and a generated segmentation; framing mismatch pairings (plaintext device on Noise client, "
    "0x01..0x7f first byte on a plaintext client); key strings (canonical base64 of 0..64 bytes, length = 1 mod 4, "
    "non-ASCII, lenient-only forms); handshake-phase deviations, mismatches and key strings also through "
    "APIClient.connect on the simulation. non-trivial = the deviation hits a frame that is not the last one (something "
    "follows it) or is a handshake-phase / framing / key-string deviation."
)
ASSUMPTIONS = [
    "at layer F the stub transport mirrors asyncio: an exception out of data_received closes the transport and is handed to connection_lost; nothing is fed after the transport closed",
    "truncated/empty handshake frames and flips of the handshake status byte are judged only by the universal parts (no delivery, ends closed, APIConnectionError family)",
    "key strings that only a lenient decoder maps to 32 bytes (whitespace, stray characters, URL-safe alphabet, missing padding) are generated and counted, not asserted",
    "an authenticated frame whose plaintext is shorter than the 4-byte inner header is outside the statement's list and not generated",
]
EXHAUSTIVE_NOTE = "all single-byte flips, truncation lengths, dup/swap/drop, marker and length-byte flips of every frame of the enumerated transcripts; full handshake-phase table; key lengths 0..64"
BUDGET = {"quick": {"examples": 400, "shards": 6}, "thorough": {"examples": 6000, "shards": 16, "fuzz": {"procs": 4, "runs": 15000}}}
FLOORS = {"data_phase": 0.3, "handshake_phase": 0.1, "keystr": 0.05}

B64 = string.ascii_uppercase + string.ascii_lowercase + string.digits + "+/"


# ---------------------------------------------------------------- RFC 4648 (strict, canonical)
def b64_strict_decode(s: str) -> bytes | None:
    """Canonical RFC 4648 section 4 decoder: alphabet only, correct padding, zero pad bits."""
    if len(s) % 4:
        return None
    body = s.rstrip("=")
    npad = len(s) - len(body)
    if npad > 2 or any(ch not in B64 for ch in body):
        return None
    if (len(body) % 4) == 1 or (npad and (len(body) + npad) % 4):
        return None
    bits = 0
    nbits = 0
    out = bytearray()
    for ch in body:
        bits = (bits << 6) | B64.index(ch)
        nbits += 6
        if nbits >= 8:
            nbits -= 8
            out.append((bits >> nbits) & 0xFF)
    if bits & ((1 << nbits) - 1):
        return None  # non-zero pad bits: not canonical
    if (len(body) % 4 == 2 and npad != 2) or (len(body) % 4 == 3 and npad != 1) or (len(body) % 4 == 0 and npad):
        return None
    return bytes(out)


def b64_encode(b: bytes) -> str:
    out = []
    for i in range(0, len(b), 3):
        chunk = b[i : i + 3]
        n = int.from_bytes(chunk + b"\x00" * (3 - len(chunk)), "big")
        chars = [B64[(n >> s) & 63] for s in (18, 12, 6, 0)]
        if len(chunk) == 1:
            chars[2:] = ["=", "="]
        elif len(chunk) == 2:
            chars[3:] = ["="]
        out += chars
    return "".join(out)


# ---------------------------------------------------------------- layer F driver
class Fed:
    def __init__(self, h, conn, tr):
        self.h, self.conn, self.tr = h, conn, tr
        self.raised: list[BaseException] = []

    def feed(self, chunk: bytes, kind: int = 0) -> bool:
        """One data_received call as the transport would make it. False once the transport is closed."""
        if self.tr.closed:
            return False
        try:
            obj_, recycle_ = fstub.as_kind_recycled(chunk, kind)
            self.h.data_received(obj_)
            recycle_()  # caller reuses its receive buffer
        except Exception as e:  # noqa: BLE001 – asyncio: _fatal_error -> force close -> connection_lost(exc)
            self.raised.append(e)
            self.tr.closed = True
            self.h.connection_lost(e)
        return not self.tr.closed


def first_error(conn):
    return conn.errors[0] if conn.errors else None


def build_parts(case: dict, first_write: bytes):
    key = bytes.fromhex(case["key"])
    dkey = bytes.fromhex(case["device_key"]) if case.get("device_key") else key
    _hello, hs_body = noise_ref.split_client_hello(first_write)
    r = noise_ref.Responder(dkey)
    try:
        answer = r.accept_client_handshake(hs_body)
    except Exception:  # noqa: BLE001 – a conformant responder with another key cannot authenticate the client
        answer = None
    name = case.get("name", "dev")
    hello = noise_ref.server_hello(None if name is None else name.encode())
    msgs = [(m[0], gen.payload_bytes(m[1])) for m in case.get("msgs", [])]
    bodies = []
    if answer is not None:
        for t, p in msgs:
            bodies.append(r.encrypt_next(t, p))
    return hello, answer, msgs, bodies


def apply_deviation(dev: dict, hello: bytes, answer: bytes | None, bodies: list[bytes]):
    """-> (frames: list of raw outer frames in sending order, index of the first deviated frame in that list,
    number of genuine messages that precede the deviation, expected error class names (set) or None, phase)"""
    k = dev["kind"]
    frames = [wire.enc_noise_outer(hello), wire.enc_noise_outer(answer if answer is not None else b"\x01Handshake MAC failure")]
    data = [wire.enc_noise_outer(b) for b in bodies]
    KEYERR = {"InvalidEncryptionKeyAPIError"}
    if answer is None:  # device holds a different key
        return frames, 1, 0, KEYERR, "handshake"
    if k == "none":
        return frames + data, None, len(data), None, "none"
    if k in ("flip", "trunc", "dup", "swap", "drop", "marker", "lenflip"):
        i = dev["i"]
        if k == "flip":
            b = bytearray(bodies[i])
            b[dev["pos"] % len(b)] ^= dev.get("mask", 1) or 1
            data[i] = wire.enc_noise_outer(bytes(b))
            return frames + data, 2 + i, i, KEYERR, "data"
        if k == "trunc":
            data[i] = wire.enc_noise_outer(bodies[i][: dev["len"] % len(bodies[i])])
            return frames + data, 2 + i, i, KEYERR, "data"
        if k == "dup":
            data.insert(i, data[i])
            return frames + data, 2 + i + 1, i + 1, KEYERR, "data"
        if k == "swap":
            if i + 1 >= len(data):
                return frames + data, None, len(data), None, "none"
            data[i], data[i + 1] = data[i + 1], data[i]
            return frames + data, 2 + i, i, KEYERR, "data"
        if k == "drop":
            del data[i]
            if i >= len(data):
                return frames + data, None, i, None, "none"  # dropping the last frame is invisible
            return frames + data, 2 + i, i, KEYERR, "data"
        if k == "marker":
            f = bytearray(data[i])
            f[0] = dev["val"]
            data[i] = bytes(f)
            return frames + data, 2 + i, i, {"ProtocolAPIError"}, "data"
        if k == "lenflip":
            f = bytearray(data[i])
            f[1 + dev["which"] % 2] ^= dev.get("mask", 1) or 1
            data[i] = bytes(f)
            # re-framed stream: judged by the prefix rule; if a complete frame then fails its class is one of these
            return frames + data, 2 + i, i, {"InvalidEncryptionKeyAPIError", "ProtocolAPIError", "*maybe-none*"}, "data"
    if k == "trailing":
        # a frame that is no Noise frame at all (wrong marker) / is not authentic, right behind the genuine ones
        raw = bytes.fromhex(dev["hex"])
        return frames + data + [raw], 2 + len(data), len(data), {"ProtocolAPIError"} if raw[0] != 1 else KEYERR, "data"
    if k == "hs_error":
        frames[1] = wire.enc_noise_outer(b"\x01" + dev["text"].encode())
        return frames + data, 1, 0, KEYERR if dev["text"] == "Handshake MAC failure" else {"HandshakeAPIError"}, "handshake"
    if k == "selector":
        frames[0] = wire.enc_noise_outer(bytes([dev["val"]]) + hello[1:])
        return frames + data, 0, 0, {"HandshakeAPIError"}, "handshake"
    if k == "empty_hello":
        frames[0] = wire.enc_noise_outer(b"")
        return frames + data, 0, 0, {"HandshakeAPIError"}, "handshake"
    if k == "hs_marker":
        f = bytearray(frames[dev["which"] % 2])
        f[0] = dev["val"]
        frames[dev["which"] % 2] = bytes(f)
        return frames + data, dev["which"] % 2, 0, {"ProtocolAPIError"}, "handshake"
    if k == "hs_flip":
        b = bytearray(answer)
        pos = 1 + dev["pos"] % (len(b) - 1)
        b[pos] ^= dev.get("mask", 1) or 1
        frames[1] = wire.enc_noise_outer(bytes(b))
        return frames + data, 1, 0, KEYERR, "handshake"
    if k == "hs_status":
        # the status byte in front of the responder's handshake message is neither 0 (accepted) nor a reject with its
        # reason text: the rest of the frame is the genuine handshake message.  Judged by the universal parts only --
        # but the session MUST fail: the byte lies outside the handshake hash, nothing else would catch it
        b = bytearray(answer)
        b[0] = dev["val"]
        frames[1] = wire.enc_noise_outer(bytes(b))
        return frames + data, 1, 0, {"*must-fail*"}, "handshake"
    if k == "hs_trunc":
        frames[1] = wire.enc_noise_outer(answer[: dev["len"] % len(answer)])
        return frames + data, 1, 0, {"*universal*"}, "handshake"
    if k == "name":
        return frames + data, 0, 0, {"BadNameAPIError"}, "handshake"  # mismatch comes from case["expected"]
    if k == "name_bytes":
        # the announced name differs from the expected one by bytes that are not valid UTF-8 (it cannot even be
        # decoded): still "a mismatching device name" -- the session must end, nothing delivered (universal parts)
        raw = bytes.fromhex(dev["hex"])
        frames[0] = wire.enc_noise_outer(noise_ref.server_hello(raw))
        return frames + data, 0, 0, {"*must-fail*"}, "handshake"
    raise ValueError(k)


def run_case(case: dict) -> CaseResult:
    mode = case.get("mode", "noise")
    if mode == "keystr":
        return run_keystr(case)
    if mode == "plain_client":
        return run_plain_client(case)
    if mode == "api":
        return run_api(case)
    res = CaseResult()
    key = bytes.fromhex(case["key"])
    expected = case.get("expected")
    h, conn, tr = fstub.make_noise(base64.b64encode(key).decode(), expected, eph=int(case.get("eph", 0)))
    fd = Fed(h, conn, tr)
    dev = case["dev"]
    if dev["kind"] == "plain_device":
        # a plaintext device answering a Noise client
        stream = wire.enc_plain(2, b"\x08\x01\x10\x0a") + wire.enc_plain(4, b"")
        frames, bad, nprefix, want, phase, msgs = [stream], 0, 0, {"ProtocolAPIError"}, "framing", []
    else:
        hello, answer, msgs, bodies = build_parts(case, tr.writes[0])
        frames, bad, nprefix, want, phase = apply_deviation(dev, hello, answer, bodies)
    stream = b"".join(frames)
    ends = []
    off = 0
    for f in frames:
        off += len(f)
        ends.append(off)
    seg = case.get("seg", "one")
    if seg == "one":
        cuts = []
    elif seg == "frames":
        cuts = ends[:-1]
    elif seg == "bytes":
        cuts = list(range(1, len(stream)))
    else:
        cuts = sorted(c for c in case.get("cuts", []) if 0 <= c <= len(stream))
    kinds = case.get("kinds") or [0]
    real = [(t, p) for t, p in msgs]
    fed = 0
    for ci, chunk in enumerate(wire.iter_cut(stream, cuts)):
        alive = fd.feed(chunk, kinds[ci % len(kinds)])
        fed += len(chunk)
        got = [(t, bytes(p)) for t, p in conn.packets]
        if got != real[: len(got)] or len(got) > nprefix:
            what = "forged-or-altered" if got != real[: len(got)] else "delivered-at-or-after-deviation"
            res.violations.append(
                Violation(ID, f"c04:prefix:{what}:{dev['kind']}", f"{dev} seg={seg}: delivered {[(t, len(p)) for t, p in got]} but only the first {nprefix} of {[(t, len(p)) for t, p in real]} precede the deviation")
            )
            break
        if not alive:
            break
    got = [(t, bytes(p)) for t, p in conn.packets]
    err = first_error(conn)
    errname = type(err).__name__ if err is not None else None
    if not res.violations:
        if bad is None:
            if err is not None or got != real[:nprefix]:
                res.violations.append(Violation(ID, "c04:valid-stream-rejected", f"{dev}: error {err!r}, delivered {len(got)}/{nprefix}"))
        elif want and "*maybe-none*" in want:
            if err is not None and errname not in want:
                res.violations.append(Violation(ID, f"c04:error-class:{errname}:{dev['kind']}", f"{dev}: {err!r}"))
        elif want and "*universal*" in want:
            if got:
                res.violations.append(Violation(ID, "c04:prefix:delivery-after-broken-handshake", str(dev)))
        elif want and "*must-fail*" in want:
            rf = h.ready_future
            ready_ok = rf.done() and not rf.cancelled() and rf.exception() is None
            if got:
                res.violations.append(Violation(ID, "c04:prefix:delivery-after-broken-handshake", str(dev)))
            elif err is None or ready_ok or not tr.closed:
                res.violations.append(Violation(ID, f"c04:not-failed:{dev['kind']}", f"{dev} seg={seg}: error={err!r} readiness-succeeded={ready_ok} closed={tr.closed}"))
        else:
            if len(got) != nprefix:
                res.violations.append(Violation(ID, f"c04:prefix:lost-before-deviation:{dev['kind']}", f"{dev}: delivered {len(got)} of the {nprefix} genuine messages before the deviation"))
            if err is None:
                res.violations.append(Violation(ID, f"c04:not-failed:{dev['kind']}", f"{dev} seg={seg}: no fatal error reported after the deviated frame was fed completely"))
            else:
                if errname not in want:
                    res.violations.append(Violation(ID, f"c04:error-class:{errname}-expected-{'|'.join(sorted(want))}:{dev['kind']}", f"{dev}: {err!r}"))
                if "BadNameAPIError" in want and getattr(err, "received_name", None) != case.get("name"):
                    res.violations.append(Violation(ID, "c04:bad-name-without-received-name", repr(err)))
                if not tr.closed:
                    res.violations.append(Violation(ID, f"c04:not-closed:{dev['kind']}", f"{dev}: transport still open after {errname}"))
                if phase in ("handshake", "framing"):
                    rf = h.ready_future
                    rexc = rf.exception() if rf.done() and not rf.cancelled() else None
                    if type(rexc).__name__ != errname:
                        res.violations.append(Violation(ID, f"c04:readiness-wait:{type(rexc).__name__}-expected-{errname}", str(dev)))
    classes = {phase + "_phase" if phase in ("data", "handshake") else phase, "seg_" + seg, "dev_" + dev["kind"]}
    follows = bad is not None and bad < len(frames) - 1
    if follows:
        classes.add("something_follows")
    res.classes = sorted(classes)
    res.nontrivial = bad is not None and (follows or phase != "data")
    res.info = {"dev": dev, "error": errname, "delivered": len(got), "frames": len(frames)}
    return res


def run_plain_client(case: dict) -> CaseResult:
    """A plaintext client receiving something that is not plaintext framing."""
    res = CaseResult()
    h, conn, tr = fstub.make_plain()
    fd = Fed(h, conn, tr)
    first = case["first"]
    data = bytes([first]) + bytes.fromhex(case.get("tail", ""))
    cuts = sorted(c for c in case.get("cuts", []) if 0 <= c <= len(data))
    for chunk in wire.iter_cut(data, cuts):
        if not fd.feed(chunk):
            break
    err = first_error(conn)
    want = "RequiresEncryptionAPIError" if first == 1 else "ProtocolAPIError"
    if first >= 0x80:
        # the indicator is read as a varint: a first byte with the continuation bit is judged once the varint is
        # complete, and a non-canonical encoding of zero (80 80 00) is then a zero indicator.  The statement is about
        # a device speaking the OTHER framing (first byte 0x01) / wrong marker bytes; it says nothing about padded
        # zeros, so those -- and varints still incomplete -- carry no verdict here
        val, shift, complete = 0, 0, False
        for b in data:
            val |= (b & 0x7F) << shift
            shift += 7
            if not b & 0x80:
                complete = True
                break
        if not complete or val in (0, 1):  # (81 00 is a padded ONE: read as the other framing's indicator)
            res.classes = ["framing", "plain_client", "indicator_varint_without_verdict"]
            res.info = {"first": first, "error": type(err).__name__}
            return res
    if conn.packets:
        res.violations.append(Violation(ID, "c04:prefix:delivery-on-wrong-framing", f"first byte 0x{first:02x}"))
    if type(err).__name__ != want:
        res.violations.append(Violation(ID, f"c04:error-class:{type(err).__name__}-expected-{want}:plain_client", f"first byte 0x{first:02x}: {err!r}"))
    elif not tr.closed:
        res.violations.append(Violation(ID, "c04:not-closed:plain_client", f"first byte 0x{first:02x}"))
    res.classes = ["framing", "plain_client"]
    res.nontrivial = True
    res.info = {"first": first, "error": type(err).__name__}
    return res


def classify_key(s: str) -> str:
    try:
        s.encode("ascii")
    except UnicodeEncodeError:
        return "reject"  # no base64 decoder accepts non-ASCII text
    body = s.rstrip("=")
    strict = b64_strict_decode(s)
    if strict is not None:
        return "accept" if len(strict) == 32 else "reject"
    if all(ch in B64 for ch in body) and len(body) % 4 == 1 and len(s) - len(body) <= 2 and "=" not in body:
        return "reject"  # 6 bits left over: no decoder can accept
    return "unasserted"


def run_keystr(case: dict) -> CaseResult:
    from aioesphomeapi._frame_helper.noise import APINoiseFrameHelper

    res = CaseResult()
    s = case["s"]
    verdict = classify_key(s)
    fstub.loop()
    conn = fstub.StubConnection()
    try:
        noise_ref.reset_ephemerals(0)
        h = APINoiseFrameHelper(connection=conn, noise_psk=s, expected_name=None, client_info="v", log_name="v")
        outcome = "accepted"
    except Exception as e:  # noqa: BLE001
        outcome = type(e).__name__
    if verdict == "reject" and outcome != "InvalidEncryptionKeyAPIError":
        res.violations.append(Violation(ID, f"c04:keystr:{outcome}-expected-InvalidEncryptionKeyAPIError", f"key string {s!r}"))
    if verdict == "accept" and outcome != "accepted":
        res.violations.append(Violation(ID, f"c04:keystr:valid-key-rejected:{outcome}", f"key string {s!r}"))
    res.classes = ["keystr", "keystr_" + verdict]
    res.nontrivial = verdict != "unasserted"
    res.info = {"s": s[:80], "verdict": verdict, "outcome": outcome}
    return res


def run_api(case: dict) -> CaseResult:
    """Handshake-phase deviations, framing mismatches and key strings through APIClient.connect."""
    from vf.life import KEY
    from vf.simloop import IterationCap
    from vf.simnet import Env, make_client

    res = CaseResult()
    what = case["what"]
    client_psk = base64.b64encode(KEY).decode()
    dev_noise = True
    if what == "keystr":
        client_psk = case["s"]
    elif what == "noise_device_plain_client":
        client_psk = None
    elif what == "plain_device_noise_client":
        dev_noise = False
    env = Env(noise_key=KEY if dev_noise else None)
    dev = env.dev
    name = case.get("name", "dev")
    dev.noise_name = None if name is None else name.encode()
    want = None
    if what == "dev":
        d = case["dev"]

        def hook(sess, answer):
            hello = noise_ref.server_hello(dev.noise_name)
            frames, _bad, _n, w, _ph = apply_deviation(d, hello, answer, [])
            sess.send_raw(b"".join(frames), cuts=case.get("cuts"))

        dev.noise_handshake_hook = hook
        hello = noise_ref.server_hello(dev.noise_name)
        _f, _b, _n, want, _p = apply_deviation(d, hello, b"\x00" + bytes(48), [])
    elif what == "api_name":
        # the device holds the right key; its Noise hello announces no name (old firmware) or the expected one, but the
        # authenticated HelloResponse names a different device: "a mismatching device name" must end the session
        dev.name = case["api_name"]
        want = {"BadNameAPIError"}
    elif what == "wrong_key":
        dev.noise_key = bytes(32)
        want = {"InvalidEncryptionKeyAPIError"}
    elif what == "plain_device_noise_client":
        from aioesphomeapi import api_pb2 as pb

        dev.on_noise_client = lambda s: s.send_raw(wire.enc_plain(2, pb.HelloResponse(api_version_major=1, api_version_minor=10).SerializeToString()))
        want = {"ProtocolAPIError"}
    elif what == "noise_device_plain_client":
        dev.on_plain_client = lambda s: s.send_raw(wire.enc_noise_outer(b"\x01Bad indicator byte"))
        want = {"RequiresEncryptionAPIError"}
    elif what == "keystr":
        v = classify_key(case["s"])
        # APIClient documents an empty key string as "no key configured" (like the password)
        want = {"InvalidEncryptionKeyAPIError"} if v == "reject" and case["s"] != "" else None
        if want is None:
            dev.noise_key = None  # whatever the verdict, let the run end quickly
    cli = make_client(env, noise_psk=client_psk, expected_name=case.get("expected"))
    stops = []

    async def on_stop(x):
        stops.append(x)

    env.loop.sim_at(0, lambda: env.spawn("main", cli.connect(on_stop=on_stop, login=True)))
    env.loop.horizon = 1024.0 + 400.0
    try:
        env.run()
    except IterationCap as e:
        env.close()
        raise HarnessError(str(e)) from e
    r = env.results.get("main")
    outcome = "pending" if r is None else "ok" if r[0] == "ok" else type(r[1]).__name__
    if want and ("*universal*" in want or "*must-fail*" in want):
        from aioesphomeapi.core import APIConnectionError

        if r is None or r[0] == "ok" or not isinstance(r[1], APIConnectionError):
            res.violations.append(Violation(ID, f"c04:api:universal:{outcome}", str(case)))
    elif want is not None and outcome not in want:
        res.violations.append(Violation(ID, f"c04:api:error-class:{outcome}-expected-{'|'.join(sorted(want))}:{what}", f"{case}: {r and r[1]!r}"))
    if want is not None:
        if what == "keystr" and any(e["kind"] == "write" for e in env.trace):
            res.violations.append(Violation(ID, "c04:api:keystr:bytes-written-before-rejection", case["s"][:60]))
        if "BadNameAPIError" in want and r is not None and r[0] == "exc" and getattr(r[1], "received_name", None) != (case["api_name"] if what == "api_name" else name):
            res.violations.append(Violation(ID, "c04:api:bad-name-without-received-name", repr(r[1])))
        if stops:
            res.violations.append(Violation(ID, "c04:api:on_stop-called", str(stops)))
        left = env.audit()
        if left:
            res.violations.append(Violation(ID, "c04:api:not-closed", ";".join(left[:4])))
        if any(e["kind"] == "deliver" and not (what == "api_name" and e["type"] in (2, 4)) for e in env.trace):
            res.violations.append(Violation(ID, "c04:api:delivery-despite-deviation", what))
    if what == "keystr" and case["s"] != "":
        # whatever 'is base64 for exactly 32 bytes' means for the odd strings (missing fill characters, blanks), it
        # means ONE thing: the key handed to the client and the same key handed to the frame helper get the same verdict
        from aioesphomeapi._frame_helper.noise import APINoiseFrameHelper

        fstub.loop()
        try:
            APINoiseFrameHelper(connection=fstub.StubConnection(), noise_psk=case["s"], expected_name=None, client_info="v", log_name="v")
            direct_rejected = False
        except Exception:  # noqa: BLE001
            direct_rejected = True
        api_rejected = outcome == "InvalidEncryptionKeyAPIError" and not any(e["kind"] == "write" for e in env.trace)
        if direct_rejected != api_rejected:
            res.violations.append(Violation(ID, "c04:api:keystr:verdict-depends-on-the-entry-point",
                                            f"key string {case['s'][:60]!r}: frame helper {'rejects' if direct_rejected else 'accepts'} it, connect() {'rejects' if api_rejected else 'accepts'} it (outcome {outcome})"))
    res.classes = ["api", "api_" + what] + (["keystr"] if what == "keystr" else ["handshake_phase"] if what in ("dev", "wrong_key", "api_name") else ["framing"])
    res.nontrivial = want is not None
    res.info = {"what": what, "outcome": outcome}
    env.close()
    return res


# ------------------------------------------------------------------ generators
SMALL_MSGS = [
    [26, {"h": "0d010000001001"}], [7, {"h": ""}], [25, {"h": "0d020000001500004040"}], [8, {"h": ""}],
    [35, {"h": "0a03666f6f"}], [5, {"h": ""}], [29, {"h": "0801120568656c6c6f"}], [26, {"h": "0d07000000"}],
]
HS_DEVS = (
    [{"kind": "hs_error", "text": t} for t in ("Handshake MAC failure", "Handshake error", "", "Bad handshake packet len", "Handshake MAC failure ")]
    + [{"kind": "selector", "val": v} for v in (0, 2, 3, 0x7F, 0x80, 0xFF)]
    + [{"kind": "empty_hello"}]
    + [{"kind": "hs_marker", "which": w, "val": v} for w in (0, 1) for v in (0, 2, 0x7F, 0xFF)]
)
KEYSTR_FIXED = (
    [b64_encode(bytes(range(n))) for n in range(0, 65)]
    + ["A" * n for n in (1, 5, 9, 41, 45)]
    + ["x" * 43 + "é", "AAAAAAAAAAAAAAAAAAAAAAAAAAAAAAAAAAAAAAAAAAA= ", "ключ", "１２３４", b64_encode(bytes(32))[:-2] + "é=", "​" + b64_encode(bytes(32))]
    + [b64_encode(bytes(range(32))).rstrip("="), b64_encode(bytes(range(1, 33))).rstrip("="), b64_encode(bytes(range(31))).rstrip("="), b64_encode(bytes(range(32))) + "=", b64_encode(bytes(range(32))) + "=="]
    + [" " + b64_encode(bytes(32)), b64_encode(bytes(32)) + "\n", b64_encode(bytes(32)).replace("A", "-", 1), b64_encode(bytes(32))[:-1], b64_encode(bytes(31)) + "!!!!", "====", "not base64 at all"]
)


def _transcript(i: int, nmsgs: int) -> dict:
    return {"key": bytes((i * 7 + j) % 256 for j in range(32)).hex(), "eph": i, "name": "dev", "msgs": SMALL_MSGS[:nmsgs]}


def _data_devs(bodies_len: list[int], masks):
    for i, ln in enumerate(bodies_len):
        for pos in range(ln):
            for m in masks:
                yield {"kind": "flip", "i": i, "pos": pos, "mask": m}
        for ln2 in range(ln):
            yield {"kind": "trunc", "i": i, "len": ln2}
        yield {"kind": "dup", "i": i}
        yield {"kind": "swap", "i": i}
        yield {"kind": "drop", "i": i}
        for v in (0, 2, 0x7F, 0xFF):
            yield {"kind": "marker", "i": i, "val": v}
        for which in (0, 1):
            for m in (1, 2, 0x10, 0x80):
                yield {"kind": "lenflip", "i": i, "which": which, "mask": m}


def enumerated(tier):
    masks = (1,) if tier == "quick" else (1, 0x80)
    ntr = 2 if tier == "quick" else 12
    for ti in range(ntr):
        tr = _transcript(ti, 5 if ti % 2 == 0 else 8)
        lens = [4 + len(gen.payload_bytes(s)) + 16 for _t, s in tr["msgs"]]
        yield {**tr, "dev": {"kind": "none"}, "seg": "one"}
        for d in _data_devs(lens, masks):
            segs = ("one", "frames") if d["kind"] in ("flip", "trunc") else ("one", "frames", "bytes")
            for seg in segs:
                yield {**tr, "dev": d, "seg": seg}
        for d in HS_DEVS:
            for seg in ("one", "frames", "bytes"):
                yield {**tr, "dev": d, "seg": seg}
        for pos in range(48):
            yield {**tr, "dev": {"kind": "hs_flip", "pos": pos, "mask": masks[-1]}, "seg": "one" if pos % 2 else "frames"}
        for ln in range(0, 49, 4):
            yield {**tr, "dev": {"kind": "hs_trunc", "len": ln}, "seg": "one"}
        for raw in (b"dev\xff", b"\xfedev", b"d\x80ev", b"dev\xc3", b"\xed\xa0\x80dev", b"dev\xf8\x88\x80\x80\x80"):
            for seg in ("one", "frames", "bytes"):
                yield {**tr, "name": "dev", "expected": "dev", "dev": {"kind": "name_bytes", "hex": raw.hex()}, "seg": seg}
        for val in (1, 2, 3, 4, 8, 0x10, 0x20, 0x40, 0x7F, 0x80, 0xC3, 0xFE, 0xFF):
            yield {**tr, "dev": {"kind": "hs_status", "val": val}, "seg": ("one", "frames", "bytes")[val % 3]}
        for nm, ex in (("dev", "other"), ("", "dev"), ("devx", "dev"), ("Dev", "dev")):
            for seg in ("one", "frames", "bytes"):
                yield {**tr, "name": nm, "expected": ex, "dev": {"kind": "name"}, "seg": seg}
        yield {**tr, "device_key": bytes(32).hex(), "dev": {"kind": "none"}, "seg": "one"}
        yield {**tr, "device_key": (b"\x01" * 32).hex(), "dev": {"kind": "none"}, "seg": "frames"}
        yield {**tr, "dev": {"kind": "plain_device"}, "seg": "one"}
        yield {**tr, "dev": {"kind": "plain_device"}, "seg": "bytes"}
    for first in range(1, 0x80):
        yield {"mode": "plain_client", "first": first, "tail": "0000"}
    for first in (0x80, 0x81, 0xFF):
        yield {"mode": "plain_client", "first": first, "tail": "01"}
    for s in KEYSTR_FIXED:
        yield {"mode": "keystr", "s": s}
        yield {"mode": "api", "what": "keystr", "s": s}
    for d in HS_DEVS + [{"kind": "hs_status", "val": v} for v in (2, 0x41, 0x80, 0xFF)] + [{"kind": "hs_flip", "pos": p, "mask": 1} for p in (0, 5, 31, 32, 47)] + [{"kind": "hs_trunc", "len": n} for n in (0, 1, 20, 48)]:
        for cuts in (None, [3], [4, 9]):
            yield {"mode": "api", "what": "dev", "dev": d, "cuts": cuts}
    # the deviating frame sits in the chunk that completes the handshake, directly behind the device's handshake reply
    for hx in ("000000", "020000", "7f0001aa", "01001000112233445566778899aabbccddeeff"):
        for cuts in (None, [5]):
            yield {"mode": "api", "what": "dev", "dev": {"kind": "trailing", "hex": hx}, "cuts": cuts}
    for nm, ex in (("dev", "other"), ("", "dev"), ("devx", "dev"), ("dev-2", "dev"), ("plug-2", "plug"), ("dev", "dev-2")):
        yield {"mode": "api", "what": "dev", "dev": {"kind": "name"}, "name": nm, "expected": ex}
    for what in ("wrong_key", "plain_device_noise_client", "noise_device_plain_client"):
        yield {"mode": "api", "what": what}
    for nn in (None, "dev"):
        for an in ("garage", "Dev", "dev2", "dev-2", "dev-aabbcc", "de"):
            yield {"mode": "api", "what": "api_name", "name": nn, "expected": "dev", "api_name": an}


@st.composite
def _case(draw, tier):
    m = draw(st.integers(0, 19))
    if m == 0:
        return {"mode": "plain_client", "first": draw(st.integers(1, 255)), "tail": draw(st.binary(max_size=6)).hex(), "cuts": draw(st.lists(st.integers(0, 6), max_size=2))}
    if m <= 2:
        kind = draw(st.integers(0, 5))
        if kind == 0:
            s = b64_encode(draw(st.binary(max_size=64)))
        elif kind == 1:
            s = b64_encode(draw(st.binary(min_size=32, max_size=32)))
        elif kind == 2:
            s = draw(st.text(alphabet=B64, min_size=1, max_size=60))
        elif kind == 3:
            s = b64_encode(draw(st.binary(min_size=30, max_size=34)))
            pos = draw(st.integers(0, len(s)))
            s = s[:pos] + draw(st.sampled_from(["é", " ", " ", "\n", "-", "_", "=", "!", "​", "１"])) + s[pos:]
        elif kind == 4:
            s = draw(st.text(max_size=50))
        else:
            s = b64_encode(draw(st.binary(min_size=32, max_size=32))).rstrip("=")
        return {"mode": "api" if draw(st.integers(0, 3)) == 0 else "keystr", "what": "keystr", "s": s}
    n = draw(st.integers(1, 8))
    msgs = []
    for _ in range(n):
        msgs.append([draw(st.one_of(st.sampled_from(range(1, 124)), st.sampled_from([0, 65535]))), draw(gen.payload_spec(max_len=300, big_prob=False))])
    tr = {
        "key": draw(st.one_of(st.binary(min_size=32, max_size=32), st.sampled_from([bytes(32), b"\xff" * 32]))).hex(),
        "eph": draw(st.integers(0, 60)),
        "name": draw(st.sampled_from(["dev", "dev", None, "", "kitchen"])),
        "msgs": msgs,
    }
    lens = [4 + len(gen.payload_bytes(s)) + 16 for _t, s in msgs]
    i = draw(st.integers(0, n - 1))
    k = draw(st.integers(0, 13))
    if k <= 2:
        d = {"kind": "flip", "i": i, "pos": draw(st.integers(0, lens[i] - 1)), "mask": draw(st.sampled_from([1, 2, 4, 8, 16, 32, 64, 128, 255]))}
    elif k == 3:
        d = {"kind": "trunc", "i": i, "len": draw(st.integers(0, lens[i] - 1))}
    elif k <= 6:
        d = {"kind": draw(st.sampled_from(["dup", "swap", "drop"])), "i": i}
    elif k == 7:
        d = {"kind": "marker", "i": i, "val": draw(st.integers(0, 255).filter(lambda v: v != 1))}
    elif k == 8:
        d = {"kind": "lenflip", "i": i, "which": draw(st.integers(0, 1)), "mask": draw(st.sampled_from([1, 2, 4, 8, 16, 32, 64, 128]))}
    elif k == 9:
        d = draw(st.sampled_from(HS_DEVS))
    elif k == 10 and draw(st.integers(0, 3)) == 0:
        d = {"kind": "hs_status", "val": draw(st.integers(1, 255))}
    elif k == 10:
        d = {"kind": "hs_flip", "pos": draw(st.integers(0, 47)), "mask": draw(st.sampled_from([1, 128, 255]))}
    elif k == 11 and draw(st.integers(0, 3)) == 0:
        base_n = draw(st.sampled_from([b"dev", b"kitchen", b"k\xc3\xbcche"]))
        pos = draw(st.integers(0, len(base_n)))
        bad = draw(st.sampled_from([b"\xff", b"\xfe", b"\x80", b"\xc3", b"\xed\xa0\x80", b"\xf5\x80\x80\x80"]))
        d = {"kind": "name_bytes", "hex": (base_n[:pos] + bad + base_n[pos:]).hex()}
        tr["name"] = base_n.decode()
        tr["expected"] = base_n.decode()
    elif k == 11:
        d = {"kind": "name"}
        tr["name"] = draw(st.sampled_from(["dev", "", "x", "küche"]))
        tr["expected"] = tr["name"] + "2"
    elif k == 12:
        d = {"kind": "none"}
        tr["device_key"] = draw(st.binary(min_size=32, max_size=32)).hex()
        if tr["device_key"] == tr["key"]:
            tr["device_key"] = bytes(31).hex() + "01"
    else:
        d = {"kind": "selector", "val": draw(st.integers(0, 255).filter(lambda v: v != 1))}
    total = 60 + sum(3 + x for x in lens) + 60
    case = {**tr, "dev": d, "seg": draw(st.sampled_from(["one", "frames", "cuts", "cuts", "bytes" if total < 600 else "cuts"]))}
    if case["seg"] == "cuts":
        case["cuts"] = draw(st.lists(st.integers(0, total), min_size=1, max_size=8))
        case["kinds"] = draw(gen.chunk_kinds())
    if k >= 9 and draw(st.integers(0, 3)) == 0 and d["kind"] != "none":
        return {"mode": "api", "what": "dev", "dev": d, "name": tr["name"], "expected": tr.get("expected"), "cuts": case.get("cuts", [])[:3]}
    return case


def strategy(tier):
    return _case(tier)
