"""C11 – request/response calls get exactly their responses and leave nothing behind.

Layer S.  1-4 concurrent send_messages_await_response_complex calls on one
established session (each with its own response-type set, accept / stop predicate
and timeout), device messages on a time grid that contains the call instants
(arrival in the very next loop turn) and the timeout instants, caller
cancellations and connection closes.  Oracle: reference model over the ordered
event list (per call: accepted messages after the request, up to and including the
first stopper; else TimeoutAPIError exactly at t+timeout; else the connection's
error at close).  Post-conditions after every ending: handler table back to the
pre-call snapshot, number of armed request timers == number of still open calls,
waiter set empty at the end.
"""
from __future__ import annotations

import asyncio

from hypothesis import strategies as st

from vf.runner import CaseResult, HarnessError, Violation
from vf.sess import Session, handler_snapshot
from vf.simloop import START, IterationCap

ID = "C11"
LEVEL = "exploration"
RULE = (
    "case = plaintext|noise session + 1-4 calls {start tick, response type subset of 4 state types, accept predicate, "
    "stop predicate (None | key parity | type is X | key == c | never), timeout in {1,2,10} s} + device messages "
    "{tick, type (4 response types + 1 foreign), key 0-3} + caller cancels + at most one connection close (EOF, reset, "
    "DisconnectRequest, bad preamble); all instants on a 1/256 s grid drawn mostly from the call instants, the instants "
    "right after them and the timeout instants, ties allowed (list order = arrival order; device events precede timers). "
    "non-trivial = two calls overlapping in time with intersecting type sets, or an arrival/cancel/close at the same "
    "instant as a call start, a completion or a timeout."
)
ASSUMPTIONS = [
    "calls are started as eager tasks, so 'request written' has an exact position in the event order",
    "when a cancel shares its instant with the call's completion either outcome is accepted",
    "post-conditions read the connection's handler table and waiter set (internal names _message_handlers, _read_exception_futures)",
]
BUDGET = {"quick": {"examples": 700, "shards": 4}, "thorough": {"examples": 15000, "shards": 16}}
FLOORS = {"overlap_shared_type": 0.25, "tie": 0.3, "outcome_ok": 0.2, "outcome_timeout": 0.1, "outcome_connerr": 0.05, "outcome_cancelled": 0.03}

TICK = 1 / 256
RESP_TYPES = [26, 25, 21, 27]  # Switch, Sensor, BinarySensor, TextSensor state responses (all have `key`)
FOREIGN = 24  # LightStateResponse
PONG = 8  # PingResponse: a legal response type for a call like any other, also while the keepalive's own ping is unanswered
CLOSE_ERR = {"eof": "SocketClosedAPIError", "reset": "ReadFailedAPIError", "discreq": "APIConnectionError", "garbage": "ProtocolAPIError",
             "writefail": "SocketClosedAPIError", "pingfail": "PingFailedAPIError"}
PING_K = 1.0  # keepalive of a "pingfail" case: the device answers no ping; death = 4.5 K after the first ping following a silent interval


def pingfail_tick(case: dict) -> int:
    """Tick at which the keepalive declares the silent device dead (reference model of C10, in ticks)."""
    from vf.props import c10

    _p, death = c10.model(PING_K * 256, 0.0, sorted(float(m[0]) for m in case.get("msgs", [])), None)
    return int(death)


def _pred(spec):
    if spec is None:
        return None
    kind = spec[0]
    if kind == "parity":
        return lambda m: m.key % 2 == spec[1]
    if kind == "type":
        from vf import wire

        cls = wire.ids()[0][spec[1]]
        return lambda m: type(m) is cls
    if kind == "key":
        return lambda m: m.key == spec[1]
    if kind == "never":
        return lambda m: False
    raise ValueError(spec)


def _pred_model(spec, tid, key) -> bool:
    if spec is None:
        return True
    kind = spec[0]
    if kind == "parity":
        return key % 2 == spec[1]
    if kind == "type":
        return tid == spec[1]
    if kind == "key":
        return key == spec[1]
    return False


def model(case: dict, t0_tick: int = 0):
    """-> per call: (outcome, responses [(type,key)], end tick or None)"""
    calls = case["calls"]
    events = []
    for i, c in enumerate(calls):
        events.append((c["at"], 0, len(events), ("call", i)))
    for m in case.get("msgs", []):
        events.append((m[0], 0, len(events), ("msg", m[1], m[2])))
    for c in case.get("cancels", []):
        events.append((c[0], 0, len(events), ("cancel", c[1])))
    armed_from = None
    if case.get("close") and case["close"][1] == "writefail":
        armed_from = case["close"][0]  # transport.write raises from this tick on: the next request write closes the connection
    elif case.get("close") and case["close"][1] == "pingfail":
        pass  # a timer of the connection: ordered below, after the device events of its instant
    elif case.get("close"):
        events.append((case["close"][0], 0, len(events), ("close", case["close"][1])))
    # the list order of same-tick sim events is the order in which run_case registers them
    order = {"call": 0, "msg": 1, "cancel": 2, "close": 3}
    seqd = []
    reg = 0
    for kind_order in ("call", "msg", "cancel", "close"):
        for e in events:
            if e[3][0] == kind_order:
                seqd.append((e[0], 0, reg, e[3]))
                reg += 1
    for i, c in enumerate(calls):
        seqd.append((c["at"] + int(c["timeout"] * 256), 1, reg, ("timeout", i)))
        reg += 1
    if case.get("close") and case["close"][1] == "pingfail":
        seqd.append((pingfail_tick(case), 1, -1, ("close", "pingfail")))  # (armed long before the calls' timers of that instant)
    if case.get("close") and case["close"][1] == "reset":
        # a reset only stops the reading at once; the connection learns of it with connection_lost
        # one loop turn later, i.e. after the timers that are due at the same instant
        seqd.append((case["close"][0], 2, reg, ("close_effect", "reset")))
        reg += 1
    seqd.sort(key=lambda e: (e[0], e[1], e[2]))
    st_ = {i: {"open": False, "resp": [], "out": None, "end": None, "done_tick": None} for i in range(len(calls))}
    closed = None
    rx_closed = False
    for tick, _cls, _r, ev in seqd:
        k = ev[0]
        if k == "close" and ev[1] == "reset":
            rx_closed = True
            continue
        if k == "close_effect":
            k, ev = "close", ("close", "reset")
        if k == "msg" and rx_closed:
            continue
        if k == "call":
            i = ev[1]
            if closed is None and armed_from is not None and tick > armed_from:  # (calls of the arming tick itself are registered before it)
                closed = (tick, "writefail")
                for s in st_.values():
                    if s["open"] and s["out"] is None:
                        s["out"] = "connerr"
                        s["end"] = tick
            if closed is not None:
                st_[i]["out"] = "connerr-at-call"
                st_[i]["end"] = tick
            else:
                st_[i]["open"] = True
        elif k == "msg":
            if closed is not None:
                continue
            _, tid, key = ev
            for i, c in enumerate(calls):
                s = st_[i]
                if not s["open"] or s["out"] is not None or tid not in c["types"]:
                    continue
                if _pred_model(c.get("append"), tid, key):
                    s["resp"].append((tid, key))
                if _pred_model(c.get("stop"), tid, key):
                    s["out"] = "ok"
                    s["end"] = tick
        elif k == "cancel":
            s = st_[ev[1]]
            if s["open"] and s["out"] is None:
                s["out"] = "cancelled"
                s["end"] = tick
            elif s["open"] and s["end"] == tick and s["out"] in ("ok", "connerr"):
                s["out"] = s["out"] + "|cancelled"  # completion and cancel in the same instant: either
        elif k == "timeout":
            s = st_[ev[1]]
            if s["open"] and s["out"] is None:
                s["out"] = "timeout"
                s["end"] = tick
        elif k == "close":
            if closed is None:
                closed = (tick, ev[1])
                for s in st_.values():
                    if s["open"] and s["out"] is None:
                        s["out"] = "connerr"
                        s["end"] = tick
    return st_, closed


def run_case(case: dict) -> CaseResult:
    from vf import wire
    from aioesphomeapi import api_pb2 as pb
    from aioesphomeapi.core import APIConnectionError, TimeoutAPIError

    res = CaseResult()
    noise = bool(case.get("noise"))
    pingfail = bool(case.get("close")) and case["close"][1] == "pingfail"
    s = Session(noise=noise, keepalive=PING_K if pingfail else 32.0, auto=set())
    env = s.env
    loop = env.loop
    by_id, _ = wire.ids()
    calls = case["calls"]
    snap = {}
    post: list[str] = []
    open_calls: set[int] = set()
    aux = {"disc": False}
    subs: dict[int, dict] = {}  # plain subscriptions living next to the calls: sid -> {type, unsub, active, got}
    ended: dict[int, float] = {}
    last_tick = max(
        [c["at"] + int(c["timeout"] * 256) for c in calls] + [m[0] for m in case.get("msgs", [])] + [0]
        + ([case["close"][0]] if case.get("close") else []) + [o[0] for o in case.get("subs", [])]
        + ([pingfail_tick(case)] if case.get("close") and case["close"][1] == "pingfail" else [])
    )

    def armed_request_timers() -> int:
        from aioesphomeapi import connection as cm

        return sum(1 for h in loop.armed_timers() if h._callback is cm.handle_timeout)

    def check_post(i: int) -> None:
        # one turn after call i ended: handlers of closed calls are gone, its timer is not armed
        conn = s.conn
        if conn.connection_state.name != "CLOSED":
            hs = handler_snapshot(conn)
            extra = {k: v - snap["handlers"].get(k, 0) for k, v in hs.items() if v - snap["handlers"].get(k, 0)}
            want = {}
            for j in open_calls:
                for tid in calls[j]["types"]:
                    n = by_id[tid].__name__
                    want[n] = want.get(n, 0) + 1
            for sb in subs.values():
                if sb["active"]:
                    n = by_id[sb["type"]].__name__
                    want[n] = want.get(n, 0) + 1
            if aux["disc"]:
                want["DisconnectResponse"] = want.get("DisconnectResponse", 0) + 1
            if extra != want:
                post.append(f"handlers-after-call-end:extra={extra}:open-calls-need={want}")
        n_t = armed_request_timers()
        if n_t != len(open_calls) + (1 if aux["disc"] else 0):
            post.append(f"request-timers:{n_t}-armed-with-{len(open_calls)}-open-calls")

    def then(sess: Session):
        t0 = sess.t0
        snap["handlers"] = handler_snapshot(sess.conn)
        snap["t0"] = t0

        def start_call(i: int) -> None:
            c = calls[i]

            async def call():
                open_calls.add(i)
                try:
                    conn = sess.cli._get_connection()
                    return await conn.send_messages_await_response_complex(
                        (pb.SwitchCommandRequest(key=100 + i),),
                        _pred(c.get("append")),
                        _pred(c.get("stop")),
                        # "dup": the caller lists a response type twice (e.g. (T, *extra) with T in extra too)
                        tuple(by_id[t] for t in (c["types"] + c["types"][: int(c.get("dup", 0))])),
                        float(c["timeout"]),
                    )
                finally:
                    open_calls.discard(i)
                    ended[i] = loop.now()
                    loop.call_soon(check_post, i)

            env.spawn(f"call{i}", call())

        for i, c in enumerate(calls):
            loop.sim_at(t0 + c["at"] * TICK, start_call, i)
        mk = lambda tid, key: by_id[tid](key=key) if tid != PONG else by_id[tid]()
        if case.get("split") and not (case.get("close") and case["close"][1] in ("discreq", "garbage")):
            # (not together with a close that is itself bytes from the device: they would land inside a frame)
            # reads not aligned to frames: the first k bytes of message j ride at the end of the chunk that completes
            # message j-1 (stream order = arrival order); message j has ARRIVED when its last byte has, at its own tick
            order = sorted(range(len(case["msgs"])), key=lambda j: (case["msgs"][j][0], j))
            sp = {int(a): int(b) for a, b in case["split"]}
            cache: dict[int, bytes] = {}

            def frame(pos: int) -> bytes:
                if pos not in cache:
                    _t, tid, key = case["msgs"][order[pos]]
                    cache[pos] = sess.dsess.encode(mk(tid, key))
                return cache[pos]

            def cut(pos: int) -> int:
                return max(0, min(sp.get(pos, 0), len(frame(pos)) - 1)) if pos > 0 else 0

            def go(pos: int) -> None:
                tr = sess.dsess.transport
                if tr.closing:
                    env.log("device_send_skipped")
                    return
                f = frame(pos)
                data = f[cut(pos):]
                if pos + 1 < len(order):
                    data += frame(pos + 1)[:cut(pos + 1)]
                tr.feed(data)

            for pos, j in enumerate(order):
                loop.sim_at(t0 + case["msgs"][j][0] * TICK, go, pos)
        else:
            for tick, tid, key in case.get("msgs", []):
                sess.device_send_at(t0 + tick * TICK, mk(tid, key))
        for tick, i in case.get("cancels", []):
            loop.sim_at(t0 + tick * TICK, env.cancel, f"call{i}")
        # the transport's write-side flow control (buffer above / below its water marks): a call made meanwhile is
        # written, registered and timed from the moment it is made all the same
        for on, off in case.get("pauses", []):
            proto = sess.dsess.transport.proto
            loop.sim_at(t0 + on * TICK, lambda p_=proto: None if sess.dsess.transport.closing else p_.pause_writing())
            loop.sim_at(t0 + off * TICK, lambda p_=proto: None if sess.dsess.transport.closing else p_.resume_writing())

        # plain subscriptions on the same response types come and go next to the calls (a redundant second unsubscribe
        # included): they see every message of their type while active and never disturb a call
        def sub_op(op, sid, tid):
            conn = sess.conn
            if conn.connection_state.name == "CLOSED":
                return
            if op == "sub" and sid not in subs:
                sb = {"type": tid, "active": True, "got": []}
                sb["unsub"] = conn.add_message_callback(lambda m, sb=sb: sb["got"].append((loop.now(), m.key)), (by_id[tid],))
                subs[sid] = sb
            elif op == "unsub" and sid in subs:
                subs[sid]["unsub"]()  # may be the second call on the same subscription: a no-op
                if subs[sid]["active"]:
                    subs[sid]["active"] = False
                    subs[sid]["until"] = loop.now()

        for tick, op, sid, tid in case.get("subs", []):
            loop.sim_at(t0 + tick * TICK, sub_op, op, sid, tid)
        if case.get("predisc") is not None:
            # a local disconnect() merely in progress (request sent, device does not answer) when the close arrives
            async def predisc():
                aux["disc"] = True
                try:
                    await sess.cli.disconnect()
                finally:
                    aux["disc"] = False

            loop.sim_at(t0 + case["predisc"] * TICK, lambda: env.spawn("predisc", predisc()))
        if case.get("close"):
            tick, how = case["close"]

            def do_close():
                tr = sess.dsess.transport
                if how == "writefail":
                    # (what a failing transport.write raises differs by loop: OSError from the selector loop's socket,
                    # RuntimeError from uvloop on a closed handle / after write_eof)
                    exc = {0: OSError(32, "Broken pipe"), 1: RuntimeError("unable to perform operation on <TCPTransport closed=True>; the handler is closed"),
                           2: ConnectionResetError(104, "Connection reset by peer")}[int(case.get("wf_kind", 0)) % 3]
                    tr.write_fail = ("raise", exc)
                    return
                if how == "pingfail":
                    return  # nothing to inject: the device simply never answers the keepalive pings
                if how == "eof":
                    tr.feed_eof()
                elif how == "reset":
                    tr.reset()
                elif how == "discreq":
                    tr.feed(sess.dsess.encode(pb.DisconnectRequest()))
                else:
                    tr.feed(b"\x02\x00\x00zz" if noise else b"\x07\x01\x02")

            loop.sim_at(t0 + tick * TICK, do_close)

        def finish():
            snap["final_handlers"] = handler_snapshot(sess.conn)
            snap["final_waiters"] = len(sess.conn._read_exception_futures)
            snap["final_timers"] = armed_request_timers()
            env.spawn("final", sess.cli.disconnect(force=True))

        loop.sim_at(t0 + (last_tick + 64) * TICK, finish)

    s.start(then)
    env.loop.horizon = START + 600.0
    try:
        s.run()
    except IterationCap as e:
        s.close()
        raise HarnessError(f"C11: {e}") from e
    if "t0" not in snap:
        s.close()
        raise HarnessError("C11: session not established")
    t0 = snap["t0"]
    exp, closed = model(case)
    classes = set()
    for i, c in enumerate(calls):
        e = exp[i]
        r = env.results.get(f"call{i}")
        if r is None:
            res.violations.append(Violation(ID, "c11:call-never-finished", f"call {i}: expected {e['out']}"))
            continue
        kind, val, ts, te = r
        if kind == "ok":
            got = "ok"
            got_resp = [(wire.ids()[1][type(m)], getattr(m, "key", 0)) for m in val]
        elif isinstance(val, TimeoutAPIError):
            got, got_resp = "timeout", None
        elif isinstance(val, asyncio.CancelledError):
            got, got_resp = "cancelled", None
        elif isinstance(val, APIConnectionError):
            got, got_resp = "connerr", None
        else:
            got, got_resp = f"raw:{type(val).__name__}", None
        want = e["out"]
        classes.add("outcome_" + (want or "none").split("|")[0].replace("-at-call", ""))
        if want is None:
            res.violations.append(Violation(ID, f"c11:unexpected-end:{got}", f"call {i} ended ({got}) but the model leaves it open"))
            continue
        wants = set(want.replace("connerr-at-call", "connerr").split("|"))
        if got not in wants:
            res.violations.append(
                Violation(ID, f"c11:outcome:{got}-expected-{want}", f"call {i} {c}: got {got} {got_resp}, model {want} {e['resp']}")
            )
            continue
        if got == "ok" and got_resp != e["resp"]:
            sig = "extra-response" if len(got_resp) > len(e["resp"]) else "missing-response" if len(got_resp) < len(e["resp"]) else "wrong-responses"
            res.violations.append(Violation(ID, f"c11:responses:{sig}", f"call {i} {c}: got {got_resp}, model {e['resp']}"))
        if got in ("timeout", "ok", "connerr") and want != "connerr-at-call" and "|" not in want:
            end_tick = (te - t0) / TICK
            if end_tick != e["end"]:
                res.violations.append(
                    Violation(ID, f"c11:end-time:{got}", f"call {i}: ended at tick {end_tick}, model {e['end']} (timeout {c['timeout']}s from tick {c['at']})")
                )
        if got == "connerr" and closed is not None and want == "connerr":
            wantcls = CLOSE_ERR[closed[1]]
            if type(val).__name__ != wantcls:
                res.violations.append(Violation(ID, f"c11:close-error-class:{type(val).__name__}-expected-{wantcls}", f"call {i}"))
    for p in post[:1]:
        res.violations.append(Violation(ID, "c11:leftover:" + p.split(":")[0], p))
    # the plain subscriptions next to the calls: every message of their type while active, nothing else
    sub_on: dict[int, list] = {}
    for tick, op, sid, tid in case.get("subs", []):
        if op == "sub":
            sub_on.setdefault(sid, [tick, None, tid])
        elif sid in sub_on and sub_on[sid][1] is None:
            sub_on[sid][1] = tick
    ctick = closed[0] if closed else None
    for sid, (a, b, tid) in sub_on.items():
        if ctick is not None and a > ctick:
            continue
        want_keys = [m[2] for m in sorted(case.get("msgs", []), key=lambda m: m[0]) if m[1] == tid and a < m[0] and (b is None or m[0] <= b) and (ctick is None or m[0] < ctick or (m[0] == ctick and closed[1] != "writefail"))]  # (a failing request write precedes the arrivals of its instant)
        got_keys = [k for _t, k in subs.get(sid, {}).get("got", [])]
        if got_keys != want_keys:
            res.violations.append(Violation(ID, "c11:plain-subscription-disturbed", f"subscription {sid} on type {tid} active ticks ({a}, {b}]: got keys {got_keys}, expected {want_keys}"))
    if True:  # however the calls ended -- connection loss included -- nothing of theirs stays registered
        base_h = dict(snap.get("handlers") or {})
        for sb in subs.values():
            if sb["active"]:
                n = by_id[sb["type"]].__name__
                base_h[n] = base_h.get(n, 0) + 1
        snap["handlers"] = base_h
        if snap.get("final_handlers") != snap.get("handlers"):
            res.violations.append(Violation(ID, "c11:leftover:handlers-at-end", f"{snap.get('final_handlers')} vs baseline {snap.get('handlers')}"))
        if snap.get("final_waiters"):
            res.violations.append(Violation(ID, "c11:leftover:waiters-at-end", str(snap.get("final_waiters"))))
    if snap.get("final_timers"):
        res.violations.append(Violation(ID, "c11:leftover:request-timer-at-end", str(snap.get("final_timers"))))
    # classes / non-triviality
    for i, a in enumerate(calls):
        for j, b in enumerate(calls):
            if i < j and set(a["types"]) & set(b["types"]):
                ea = exp[i]["end"] if exp[i]["end"] is not None else 10**9
                eb = exp[j]["end"] if exp[j]["end"] is not None else 10**9
                if a["at"] <= eb and b["at"] <= ea:
                    classes.add("overlap_shared_type")
    special = {c["at"] for c in calls} | {c["at"] + int(c["timeout"] * 256) for c in calls} | {e["end"] for e in exp.values() if e["end"] is not None}
    others = [m[0] for m in case.get("msgs", [])] + [c[0] for c in case.get("cancels", [])] + ([case["close"][0]] if case.get("close") else [])
    if any(t in special for t in others):
        classes.add("tie")
    if noise:
        classes.add("noise")
    if case.get("subs"):
        classes.add("with_plain_subscriptions")
    if any(c.get("dup") for c in calls):
        classes.add("duplicate_type_in_call")
    if case.get("predisc") is not None:
        classes.add("close_during_local_disconnect")
    res.classes = sorted(classes)
    res.nontrivial = bool({"overlap_shared_type", "tie"} & classes)
    res.info = {"outcomes": {i: exp[i]["out"] for i in exp}, "closed": closed}
    s.close()
    return res


# ------------------------------------------------------------------ generators
PREDS = st.one_of(
    st.none(),
    st.none(),
    st.tuples(st.just("parity"), st.integers(0, 1)).map(list),
    st.tuples(st.just("type"), st.sampled_from(RESP_TYPES)).map(list),
    st.tuples(st.just("key"), st.integers(0, 3)).map(list),
    st.just(["never"]),
)


@st.composite
def _case(draw, tier):
    n = draw(st.integers(1, 4))
    calls = []
    for _ in range(n):
        calls.append(
            {
                "at": draw(st.sampled_from([0, 0, 1, 2, 4, 8, 64, 256, 257, 300])),
                "types": sorted(set(draw(st.lists(st.sampled_from(RESP_TYPES), min_size=1, max_size=3)))),
                "append": draw(PREDS),
                "stop": draw(PREDS),
                "timeout": draw(st.sampled_from([1, 1, 2, 10])),
            }
        )
    special = sorted({c["at"] for c in calls} | {c["at"] + 1 for c in calls} | {c["at"] + int(c["timeout"] * 256) for c in calls}
                     | {c["at"] + int(c["timeout"] * 256) - 1 for c in calls})
    tick = st.one_of(st.sampled_from(special), st.sampled_from(special), st.integers(0, 700), st.integers(0, 2700))
    msgs = draw(
        st.lists(
            st.tuples(tick, st.one_of(st.sampled_from(RESP_TYPES), st.sampled_from(RESP_TYPES + [FOREIGN])), st.integers(0, 3)).map(list),
            max_size=10,
        )
    )
    case = {"noise": draw(st.integers(0, 3)) == 0, "calls": calls, "msgs": msgs}
    if draw(st.integers(0, 2)) == 0:
        case["cancels"] = draw(st.lists(st.tuples(st.one_of(tick, st.sampled_from([m[0] for m in msgs] or [0])), st.integers(0, n - 1)).map(list), min_size=1, max_size=2))
    if draw(st.integers(0, 2)) == 0:
        case["close"] = [draw(st.one_of(tick, st.sampled_from([m[0] for m in msgs] or [5]))), draw(st.sampled_from(sorted(CLOSE_ERR)))]
        if case["close"][1] == "pingfail":
            if draw(st.booleans()):
                # calls waiting for PingResponse (no key: predicates on the type only), the device sending some at will
                for c in calls:
                    if draw(st.booleans()):
                        c["types"] = sorted(set(c["types"] + [PONG]))
                        c["append"] = draw(st.sampled_from([None, ["type", PONG], ["never"]]))
                        c["stop"] = draw(st.sampled_from([None, ["type", PONG], ["type", 26], ["never"]]))
                for _ in range(draw(st.integers(1, 4))):
                    msgs.append([draw(tick), PONG, 0])
            for m in msgs:  # arrivals never tie with a keepalive tick or the pong deadline
                if m[0] % 128 == 0:
                    m[0] += 1
        if case["close"][1] not in ("writefail", "pingfail") and draw(st.integers(0, 2)) == 0:
            case["predisc"] = max(0, case["close"][0] - draw(st.sampled_from([0, 1, 2, 8, 100, 600])))
    if case.get("close") and case["close"][1] == "writefail":
        case["wf_kind"] = draw(st.integers(0, 2))
    if draw(st.integers(0, 3)) == 0:
        on = draw(st.sampled_from([0, 0, 1, 3, 250]))
        case["pauses"] = [[on, on + draw(st.sampled_from([2, 100, 300, 3000]))]]
    if len(msgs) >= 2 and draw(st.integers(0, 2)) == 0:
        case["split"] = draw(st.lists(st.tuples(st.integers(1, len(msgs) - 1), st.sampled_from([1, 2, 3, 4, 5, 6])).map(list), min_size=1, max_size=4, unique_by=lambda x: x[0]))
    if draw(st.integers(0, 2)) == 0:
        for c in calls:
            if draw(st.booleans()):
                c["dup"] = draw(st.integers(1, len(c["types"])))
    if draw(st.integers(0, 2)) == 0:
        ops = []
        for sid in range(draw(st.integers(1, 3))):
            tid = draw(st.sampled_from(RESP_TYPES))
            a = draw(tick)
            ops.append([a, "sub", sid, tid])
            for _ in range(draw(st.integers(0, 3))):  # more than one = redundant unsubscribe
                ops.append([a + draw(st.one_of(st.integers(0, 10), st.integers(0, 600))), "unsub", sid, tid])
        case["subs"] = sorted(ops, key=lambda o: o[0])
    return case


def strategy(tier):
    return _case(tier)


def enumerated(tier):
    # two calls on the same type, responses coalesced into one instant, every predicate pair
    preds = [None, ["parity", 0], ["key", 1], ["type", 26], ["never"]]
    for ap in preds:
        for sp in preds:
            for noise in (False, True):
                yield {
                    "noise": noise,
                    "calls": [{"at": 0, "types": [26, 25], "append": ap, "stop": sp, "timeout": 1}, {"at": 0, "types": [26], "append": None, "stop": None, "timeout": 2}],
                    "msgs": [[1, 26, 0], [1, 25, 1], [1, 26, 1], [1, 26, 2], [256, 26, 1], [257, 25, 0]],
                }
    # a read ends inside the next message: the complete one in front is delivered once, the call written in between
    # waits for ITS answer
    for noise in (False, True):
        for k in (1, 2, 3, 5):
            yield {"noise": noise, "split": [[1, k], [2, k]], "calls": [{"at": 0, "types": [26], "append": None, "stop": ["key", 3], "timeout": 2}, {"at": 20, "types": [26], "append": None, "stop": None, "timeout": 2}],
                   "msgs": [[8, 26, 1], [30, 26, 2], [40, 26, 3]]}
            yield {"noise": noise, "split": [[1, k]], "calls": [{"at": 0, "types": [26, 25], "append": None, "stop": ["never"], "timeout": 1}], "msgs": [[8, 26, 1], [16, 25, 2]]}
    # a used-up unsubscribe callable is called again / a call lists its type twice, while another call waits on that type
    for noise in (False, True):
        for k in (0, 1, 2, 3):
            yield {"noise": noise, "calls": [{"at": 4, "types": [26], "append": None, "stop": None, "timeout": 2}],
                   "msgs": [[20, 26, 1]], "subs": [[0, "sub", 0, 26], [2, "unsub", 0, 26], [4 + k, "unsub", 0, 26]]}
            yield {"noise": noise, "calls": [{"at": 0, "types": [26], "dup": 1, "append": None, "stop": ["key", 1], "timeout": 1},
                                             {"at": k, "types": [26], "append": None, "stop": ["key", 2], "timeout": 2}], "msgs": [[8, 26, 1], [16, 26, 2]]}
            yield {"noise": noise, "calls": [{"at": 0, "types": [26, 25], "dup": 2, "append": None, "stop": ["never"], "timeout": 1},
                                             {"at": k, "types": [25], "append": None, "stop": None, "timeout": 2}], "msgs": [[300, 25, 2]]}
    for how in ("eof", "reset", "garbage", "discreq"):
        for d in (0, 1, 50, 1000):
            yield {"noise": False, "calls": [{"at": 0, "types": [26], "append": None, "stop": ["never"], "timeout": 10}, {"at": 1100, "types": [25], "append": None, "stop": None, "timeout": 2}],
                   "msgs": [[3, 26, 1]], "close": [1200, how], "predisc": 1200 - d}
    # the device answers no keepalive ping: calls outstanding at the moment the connection is declared dead
    for msgs in ([], [[3, 26, 1]], [[300, 24, 0], [700, 26, 2]]):
        yield {"noise": False, "calls": [{"at": 0, "types": [26], "append": None, "stop": ["never"], "timeout": 10}, {"at": 1100, "types": [25, 26], "append": None, "stop": None, "timeout": 10},
                                         {"at": 300, "types": [25], "append": None, "stop": None, "timeout": 2}], "msgs": msgs, "close": [0, "pingfail"]}
    # a call waiting for PingResponse before / while the keepalive's own ping (tick 256, device silent) is unanswered
    for at in (100, 250, 257, 300, 600):
        for d in (1, 40, 200):
            for types in ([PONG], [PONG, 26]):
                yield {"noise": False, "calls": [{"at": at, "types": types, "append": None, "stop": None, "timeout": 2}], "msgs": [[at + d, PONG, 0], [at + d + 300, PONG, 0]], "close": [0, "pingfail"]}
    for off in (2, 200, 600):
        yield {"noise": False, "pauses": [[0, off]], "calls": [{"at": 1, "types": [26], "append": None, "stop": None, "timeout": 1}, {"at": 4, "types": [25], "append": None, "stop": None, "timeout": 2}], "msgs": [[100, 25, 1]]}
    for wf in (1, 2):
        for t in (0, 1, 5):
            yield {"noise": False, "wf_kind": wf, "calls": [{"at": 0, "types": [26], "append": None, "stop": ["never"], "timeout": 1}, {"at": 4, "types": [25], "append": None, "stop": None, "timeout": 2}, {"at": 8, "types": [25], "append": None, "stop": None, "timeout": 2}], "msgs": [[3, 26, 1]], "close": [t, "writefail"]}
    for how in sorted(CLOSE_ERR):
        for t in (0, 1, 5, 256, 257):
            yield {"noise": False, "calls": [{"at": 0, "types": [26], "append": None, "stop": ["never"], "timeout": 1}, {"at": 4, "types": [25], "append": None, "stop": None, "timeout": 2}], "msgs": [[3, 26, 1]], "close": [t, how]}
            yield {"noise": False, "calls": [{"at": 0, "types": [26], "append": None, "stop": None, "timeout": 1}], "msgs": [], "cancels": [[t, 0]], "close": [t + 1, how]}
