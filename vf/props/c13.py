"""C13 – message-id registry equals api.proto; traffic respects direction.

Case kinds
  tables  (one case, exhaustive) three independent views of the registry are compared:
          (i) regex parse of the api.proto TEXT, (ii) options/fields of the compiled descriptors,
          (iii) core.MESSAGE_TYPE_TO_PROTO, connection.MESSAGE_NUMBER_TO_PROTO, PROTO_TO_MESSAGE_TYPE.
  id      (one case per declared id, exhaustive) row N of every table names the class api.proto
          declares under id N, and positional lookup selects it.
  route   (layer S) frames with declared ids and generated valid payloads arrive on an established
          session with one subscriber per declared class: the frame with id N must be delivered to
          the subscriber of the class the TEXT declares under N, exactly once; and a message of the
          class the TEXT declares under N, sent with send_message, appears on the wire under id N.
  sweep   (layer S) public APIClient methods (reflection + recipes) are called on an established
          session whose device answers every request; every type id the device decodes and every
          class a handler is registered for is judged against the (source) option in the TEXT.
"""
from __future__ import annotations

import inspect

from google.protobuf.descriptor import FieldDescriptor as FD
from hypothesis import strategies as st

from vf import apisurface, pbgen, wire
from vf.runner import CaseResult, HarnessError, Violation
from vf.sess import Session
from vf.simloop import START, IterationCap

ID = "C13"
LEVEL = "exploration"
RULE = (
    "every declared id and every public APIClient method is one distinct case: (tables/id) text of api.proto vs compiled "
    "descriptors vs the three runtime tables, all rows; (route) 1-12 frames of declared ids with generated valid payloads, interleaved with repeated undeclared ids (which must reach nobody), "
    "on plaintext|noise sessions with a subscriber per class, plus the reverse direction through send_message; (sweep) "
    "sequences of 1-8 public API calls (argument variant 0-5 per recipe, negotiated API version from {1.0,1.2,1.4,1.10}, "
    "login on/off, returned unsubscribe handles invoked, optionally after the device sent one message of every server-originated type so that handler-driven writes are covered) with a device that answers every request (or none, so that every awaitable call runs into its timeout path), a keepalive tick and a "
    "device-initiated ping/time/disconnect request. non-trivial = the case exchanged at least one message in each "
    "direction after the handshake, or is a table/id case."
)
ASSUMPTIONS = [
    "api.proto is parsed with a regex reader written for this check (top-level messages/enums, option (id)/(source), field lines); nested definitions are not used by the file",
    "the set of classes a connection listens to is observed at APIConnection._add_message_callback_without_remove (the single registration funnel) via a harness-side subclass",
    "entry points are found by reflection; a method without an argument recipe is reported as uncovered in the evidence, not as a violation",
]
EXHAUSTIVE_NOTE = "tables: every message/enum/field of api.proto; id: every declared id; sweep: every public method x 6 argument variants called once on its own session"
BUDGET = {"quick": {"examples": 150, "shards": 4}, "thorough": {"examples": 3000, "shards": 16}}

SRC = {"SOURCE_BOTH": 0, "SOURCE_SERVER": 1, "SOURCE_CLIENT": 2}
PROTO_SCALARS = {
    "double": FD.TYPE_DOUBLE, "float": FD.TYPE_FLOAT, "int32": FD.TYPE_INT32, "int64": FD.TYPE_INT64,
    "uint32": FD.TYPE_UINT32, "uint64": FD.TYPE_UINT64, "sint32": FD.TYPE_SINT32, "sint64": FD.TYPE_SINT64,
    "fixed32": FD.TYPE_FIXED32, "fixed64": FD.TYPE_FIXED64, "sfixed32": FD.TYPE_SFIXED32, "sfixed64": FD.TYPE_SFIXED64,
    "bool": FD.TYPE_BOOL, "string": FD.TYPE_STRING, "bytes": FD.TYPE_BYTES,
}

_TEXT = None


def text():
    global _TEXT
    if _TEXT is None:
        _TEXT = wire.parse_proto_text()
    return _TEXT


def text_ids() -> dict[int, str]:
    out = {}
    for name, m in text()["messages"].items():
        if m["id"]:
            out.setdefault(m["id"], []).append(name)
    return out


def V(sig, detail=""):
    return Violation(ID, sig, detail)


# ------------------------------------------------------------------ tables
def check_tables() -> list[Violation]:
    from aioesphomeapi import api_pb2, connection, core

    out: list[Violation] = []
    T = text()
    tids = text_ids()
    # -- ids in the text: unique, contiguous from 1
    for i, names in sorted(tids.items()):
        if len(names) > 1:
            out.append(V(f"c13:text:duplicate-id:{i}", str(names)))
    ids = sorted(tids)
    if ids != list(range(1, len(ids) + 1)):
        missing = sorted(set(range(1, (max(ids) if ids else 0) + 1)) - set(ids))
        out.append(V("c13:text:ids-not-contiguous", f"missing {missing[:10]}"))
    # -- (i) == (ii): descriptors agree with the text
    dmsgs = api_pb2.DESCRIPTOR.message_types_by_name
    if set(dmsgs) != set(T["messages"]):
        out.append(V("c13:text-vs-descriptor:message-set", f"only text {sorted(set(T['messages']) - set(dmsgs))[:5]} only descriptors {sorted(set(dmsgs) - set(T['messages']))[:5]}"))
    did = {mid: cls.__name__ for mid, cls in wire.descriptor_ids().items()}
    tid1 = {i: n[0] for i, n in tids.items()}
    if did != tid1:
        diff = sorted(k for k in set(did) | set(tid1) if did.get(k) != tid1.get(k))
        out.append(V("c13:text-vs-descriptor:ids", f"ids differing: {[(k, tid1.get(k), did.get(k)) for k in diff[:6]]}"))
    dsrc = wire.descriptor_sources()
    for name, m in T["messages"].items():
        if name in dsrc and dsrc[name] != SRC[m["source"]]:
            out.append(V(f"c13:text-vs-descriptor:source:{name}", f"text {m['source']} descriptor {dsrc[name]}"))
    denums = api_pb2.DESCRIPTOR.enum_types_by_name
    for name, m in T["messages"].items():
        d = dmsgs.get(name)
        if d is None:
            continue
        tf = m["fields"]
        df = {f.name: f for f in d.fields}
        if set(tf) != set(df):
            out.append(V(f"c13:text-vs-descriptor:fields:{name}", f"text {sorted(tf)} descriptor {sorted(df)}"))
            continue
        for fname, spec in tf.items():
            f = df[fname]
            ok = f.number == spec["number"] and bool(f.is_repeated) == spec["repeated"]
            ty = spec["type"]
            if ty in PROTO_SCALARS:
                ok = ok and f.type == PROTO_SCALARS[ty]
            elif ty in T["enums"]:
                ok = ok and f.type == FD.TYPE_ENUM and f.enum_type.name == ty
            elif ty in T["messages"]:
                ok = ok and f.type == FD.TYPE_MESSAGE and f.message_type.name == ty
            else:
                ok = False
            if not ok:
                out.append(V(f"c13:text-vs-descriptor:field:{name}.{fname}", f"text {spec} descriptor number={f.number} type={f.type}"))
    if set(denums) != set(T["enums"]):
        out.append(V("c13:text-vs-descriptor:enum-set", ""))
    for name, vals in T["enums"].items():
        d = denums.get(name)
        if d is not None and {v.name: v.number for v in d.values} != vals:
            out.append(V(f"c13:text-vs-descriptor:enum:{name}", ""))
    # -- (iii): runtime tables are exactly the text's ids
    tbl = core.MESSAGE_TYPE_TO_PROTO
    if set(tbl) != set(tid1):
        out.append(V("c13:table:id-set", f"only table {sorted(set(tbl) - set(tid1))[:8]} only proto {sorted(set(tid1) - set(tbl))[:8]}"))
    if len(connection.MESSAGE_NUMBER_TO_PROTO) != len(tid1) or len(core.MESSAGE_NUMBER_TO_PROTO) != len(tid1):
        out.append(V("c13:table:positional-length", f"{len(connection.MESSAGE_NUMBER_TO_PROTO)} vs {len(tid1)} ids"))
    if len(connection.PROTO_TO_MESSAGE_TYPE) != len(tid1):
        out.append(V("c13:table:inverse-length", f"{len(connection.PROTO_TO_MESSAGE_TYPE)} vs {len(tid1)} ids"))
    return out


def check_id(i: int) -> list[Violation]:
    from aioesphomeapi import api_pb2, connection, core

    out = []
    names = text_ids().get(i)
    if not names:
        return [V(f"c13:id:not-declared:{i}")]
    name = names[0]
    cls = getattr(api_pb2, name, None)
    row = core.MESSAGE_TYPE_TO_PROTO.get(i)
    if row is None:
        out.append(V("c13:table:missing-id", f"id {i} ({name}) absent from MESSAGE_TYPE_TO_PROTO"))
    elif row is not cls or row.__name__ != name:
        out.append(V("c13:table:wrong-class", f"id {i}: table has {row.__name__}, api.proto declares {name}"))
    for label, tup in (("connection", connection.MESSAGE_NUMBER_TO_PROTO), ("core", core.MESSAGE_NUMBER_TO_PROTO)):
        got = tup[i - 1] if 0 <= i - 1 < len(tup) else None
        if got is not cls:
            out.append(V("c13:table:positional-lookup", f"{label}.MESSAGE_NUMBER_TO_PROTO[{i}-1] is {getattr(got, '__name__', None)}, api.proto declares {name}"))
    if connection.PROTO_TO_MESSAGE_TYPE.get(cls) != i:
        out.append(V("c13:table:inverse", f"PROTO_TO_MESSAGE_TYPE[{name}] = {connection.PROTO_TO_MESSAGE_TYPE.get(cls)}, api.proto declares {i}"))
    return out


def idless_names() -> list[str]:
    return sorted(n for n, m in text()["messages"].items() if not m["id"])


def _send_idless(conn, name: str) -> None:
    from aioesphomeapi import api_pb2

    try:
        conn.send_message(getattr(api_pb2, name)())
    except Exception:  # noqa: BLE001  refusing is the documented-by-behaviour outcome; the wire and the tables are judged
        pass


# ------------------------------------------------------------------ route
def run_poison(case: dict) -> CaseResult:
    """A device sends ONE frame of a declared id whose payload cannot be decoded (that session ends): the registry is
    what api.proto declares afterwards as before -- for this and for every later connection of the process."""
    res = CaseResult()
    i = int(case["id"])
    s = Session(noise=bool(case.get("noise")), keepalive=32.0, auto=set())

    def then(sess: Session):
        sess.dsess.transport.feed(sess.dsess.encode((i, bytes.fromhex(case.get("hex", "ffffffffffffffffffffff")))))

    s.start(then)
    s.env.loop.horizon = START + 60
    try:
        s.run()
    except IterationCap as e:
        s.close()
        raise HarnessError(f"C13 poison: {e}") from e
    closed = s.conn.connection_state.name == "CLOSED"
    s.close()
    res.violations += check_tables()
    for j in sorted(text_ids()):
        res.violations += check_id(j)
    # ... and a later session still routes that id to its class
    r2 = run_route({"kind": "route", "noise": False, "frames": [[i, {}], [26, {}]], "send": []})
    res.violations += r2.violations
    res.nontrivial = True
    res.classes = ["undecodable_payload_then_registry", "session_closed_by_it" if closed else "payload_accepted"]
    res.info = {"id": i, "closed": closed}
    return res


def run_route(case: dict) -> CaseResult:
    from aioesphomeapi import api_pb2

    res = CaseResult()
    tids = {i: n[0] for i, n in text_ids().items()}
    s = Session(noise=bool(case.get("noise")), keepalive=32.0, auto=set())
    env = s.env
    got: list[tuple[int, str, bytes]] = []  # (frame index, class name delivered, payload)
    cur = {"i": -1}
    expect: list[tuple[int, str, bytes]] = []
    sent_expect: list[tuple[int, bytes]] = []

    def then(sess: Session):
        conn = sess.conn
        for i, name in tids.items():
            cls = getattr(api_pb2, name)
            conn.add_message_callback(lambda m, _n=name: got.append((cur["i"], type(m).__name__, m.SerializeToString())), (cls,))
        tr = sess.dsess.transport
        # frames are encoded once, in stream order; with "misalign" a read ends some bytes into the NEXT frame (its
        # head rides with the chunk that completes the previous one), so frame k is complete -- and due -- at step k
        raws, metas = [], []
        for k, (i, spec) in enumerate(case["frames"]):
            if i not in tids:  # undeclared id: "nothing else is" in the table -> no class, no delivery
                raws.append(sess.dsess.encode((i, bytes.fromhex(spec.get("hex", "")))))
                metas.append(None)
            else:
                payload = pbgen.build(getattr(api_pb2, tids[i]), spec).SerializeToString()
                raws.append(sess.dsess.encode((i, payload)))
                metas.append((tids[i], payload))
            if i == 5:
                break
        mis = list(case.get("misalign") or [])
        shift = [0] + [max(0, min(mis[k % len(mis)], len(raws[k]) - 1)) if mis else 0 for k in range(1, len(raws))]
        for k, raw in enumerate(raws):
            if tr.closing:
                break
            cur["i"] = k
            if metas[k] is not None:
                expect.append((k, metas[k][0], metas[k][1]))
            tr.feed(raw[shift[k]:] + (raws[k + 1][:shift[k + 1]] if k + 1 < len(raws) else b""))
        cur["i"] = -1
        env.log("send_phase")
        # reverse direction
        if conn.connection_state.name == "CONNECTED":
            idless = case.get("send_idless", [])
            for k, (i, spec) in enumerate(case.get("send", [])):
                # a message api.proto declares WITHOUT an id has no wire type: whatever the call does, no frame
                # may appear for it and the tables must stay exactly the declared ids
                for nm in idless[k::max(1, len(case["send"]))] if k < len(idless) else []:
                    _send_idless(conn, nm)
                name = tids[i]
                msg = pbgen.build(getattr(api_pb2, name), spec)
                sent_expect.append((i, msg.SerializeToString()))
                conn.send_message(msg)
            if not case.get("send"):
                for nm in idless:
                    _send_idless(conn, nm)
        env.log("route_done")
        if conn.connection_state.name != "CLOSED":
            env.spawn("final", sess.cli.disconnect(force=True))

    s.start(then)
    env.loop.horizon = START + 120
    try:
        s.run()
    except IterationCap as e:
        s.close()
        raise HarnessError(f"C13 route: {e}") from e
    if s.t0 is None:
        s.close()
        raise HarnessError("C13 route: session not established")
    if sorted(got) != sorted(expect):
        miss = [x for x in expect if x not in got]
        extra = [x for x in got if x not in expect]
        res.violations.append(V("c13:route:delivered-to-wrong-class", f"missing {[(k, n) for k, n, _ in miss][:5]} unexpected {[(k, n) for k, n, _ in extra][:5]}"))
    c0 = next(e["seq"] for e in env.trace if e["kind"] == "send_phase")
    c1 = next((e["seq"] for e in env.trace if e["kind"] == "route_done"), 10**9)
    wrote = [(e["type"], e["payload"]) for e in env.trace if e["kind"] == "rx" and c0 < e["seq"] < c1]
    if wrote != sent_expect:
        res.violations.append(V("c13:route:sent-under-wrong-id", f"device decoded {[t for t, _ in wrote]}, expected {[t for t, _ in sent_expect]}"))
    if case.get("send_idless"):
        res.violations += check_tables()
        for i in sorted(tids):
            res.violations += check_id(i)
    res.nontrivial = bool(expect) and bool(sent_expect)
    res.classes = ["route"] + (["noise"] if case.get("noise") else []) + (["send_idless"] if case.get("send_idless") else []) + (["reads_not_aligned_to_frames"] if case.get("misalign") else [])
    res.info = {"frames": len(expect), "sent": len(sent_expect)}
    s.close()
    return res


# ------------------------------------------------------------------ sweep
def run_sweep(case: dict) -> CaseResult:
    res = CaseResult()
    T = text()["messages"]
    tids = {i: n[0] for i, n in text_ids().items()}
    R = apisurface.recipes()
    s = Session(noise=bool(case.get("noise")), login=bool(case.get("login", True)), keepalive=4.0, api=tuple(case.get("api", (1, 10))))
    env = s.env
    env.log_subscriptions = True
    if not case.get("silent"):
        apisurface.install_responder(env.dev)
    else:
        env.dev.auto = {1, 3, 5, 7}  # the device answers nothing but hello/connect/disconnect/ping: every request times out
    called: list[str] = []

    async def then(sess: Session):
        import asyncio

        from aioesphomeapi import api_pb2 as pb

        cli = sess.cli
        handles: list = []

        async def call_handles():
            while handles:
                x = handles.pop(0)()
                if inspect.isawaitable(x):
                    await x

        for name, variant in case["calls"]:
            if sess.conn.connection_state.name != "CONNECTED":
                break
            called.append(name)
            r = R[name](cli, variant)
            if inspect.isawaitable(r):
                try:
                    r = await r
                except Exception as e:  # noqa: BLE001 – outcome irrelevant here, only the traffic is judged
                    env.log("sweep_call_raised", name=name, exc=type(e).__name__)
                    r = None
            if r is not None:
                handles.extend(f for f in (r if isinstance(r, tuple) else (r,)) if callable(f))
            if case.get("unsub", True) and not case.get("stimulate"):
                await call_handles()
        if case.get("stimulate") and sess.conn.connection_state.name == "CONNECTED":
            # the device sends one message of every server-originated type (default payload) while the
            # subscriptions are live: whatever the handlers write back is judged by direction as well
            tr_ = sess.dsess.transport
            for i in sorted(tids):
                nm = tids[i]
                if SRC[T[nm]["source"]] == 2 or i in (5, 2, 4):
                    continue
                m_ = getattr(pb, nm)()
                if nm == "VoiceAssistantRequest":
                    m_.start = True
                if nm == "CameraImageResponse":
                    m_.done = True
                if not tr_.closing:
                    tr_.feed(sess.dsess.encode(m_))
            if case.get("unsub", True):
                if case.get("stimulate") == "then_wait":
                    await asyncio.sleep(2.0)
                await call_handles()
            await asyncio.sleep(2.0)
        extra = case.get("peer")
        if extra and sess.conn.connection_state.name == "CONNECTED":
            sess.dsess.transport.feed(sess.dsess.encode({"ping": pb.PingRequest(), "time": pb.GetTimeRequest()}[extra]))
        if case.get("tick"):
            await asyncio.sleep(4.5)  # one keepalive tick (PingRequest / PingResponse)
        how = case.get("end", "disconnect")
        if sess.conn.connection_state.name == "CONNECTED":
            if how == "peer":
                sess.dsess.transport.feed(sess.dsess.encode(pb.DisconnectRequest()))
            else:
                await cli.disconnect(force=(how == "force"))

    s.start(then)
    env.loop.horizon = START + 400
    try:
        s.run()
    except IterationCap as e:
        s.close()
        raise HarnessError(f"C13 sweep: {e}") from e
    if s.t0 is None:
        s.close()
        raise HarnessError("C13 sweep: session not established")
    sent = sorted({e["type"] for e in env.trace if e["kind"] == "rx"})
    subscribed = sorted({t for e in env.trace if e["kind"] == "subscribe" for t in e["types"]})
    for t in sent:
        name = tids.get(t)
        if name is None:
            res.violations.append(V("c13:direction:sent-undeclared-id", f"id {t} written; calls {called}"))
        elif SRC[T[name]["source"]] == 1:
            res.violations.append(V(f"c13:direction:sent:{name}", f"{name} is {T[name]['source']} but the client wrote it; calls {called}"))
    for name in subscribed:
        m = T.get(name)
        if m is None or not m["id"]:
            res.violations.append(V(f"c13:direction:subscribed-undeclared:{name}", f"calls {called}"))
        elif SRC[m["source"]] == 2:
            res.violations.append(V(f"c13:direction:subscribed:{name}", f"{name} is {m['source']} but the client listens for it; calls {called}"))
    for t in sent:
        _AGG["sent_ids"][str(t)] = _AGG["sent_ids"].get(str(t), 0) + 1
    for n in subscribed:
        _AGG["subscribed_classes"][n] = _AGG["subscribed_classes"].get(n, 0) + 1
    for n in called:
        _AGG["methods_called"][n] = _AGG["methods_called"].get(n, 0) + 1
    for e in env.trace:
        if e["kind"] == "sweep_call_raised":
            k = f"{e['name']}:{e['exc']}"
            _AGG["calls_raised"][k] = _AGG["calls_raised"].get(k, 0) + 1
    res.nontrivial = len(sent) > 3 or bool(called)
    res.classes = ["sweep"] + (["noise"] if case.get("noise") else [])
    res.info = {"calls": called, "sent_ids": sent, "subscribed": subscribed}
    s.close()
    return res


def run_case(case: dict) -> CaseResult:
    k = case["kind"]
    if k == "tables":
        r = CaseResult(violations=check_tables(), nontrivial=True, classes=["tables"])
        r.info = {"messages": len(text()["messages"]), "ids": len(text_ids()), "enums": len(text()["enums"])}
        return r
    if k == "id":
        return CaseResult(violations=check_id(case["id"]), nontrivial=True, classes=["id"], info={"id": case["id"], "name": text_ids().get(case["id"])})
    if k == "route":
        return run_route(case)
    if k == "poison":
        return run_poison(case)
    return run_sweep(case)


_AGG = {"sent_ids": {}, "subscribed_classes": {}, "methods_called": {}, "calls_raised": {}}


def shard_finish(stats, tier):
    for k, v in _AGG.items():
        stats.extra[k] = dict(v)


# ------------------------------------------------------------------ generators
def _api_methods():
    R = apisurface.recipes()
    return [m for m in apisurface.public_methods() if m in R]


@st.composite
def _route(draw, tier):
    from aioesphomeapi import api_pb2

    tids = {i: n[0] for i, n in text_ids().items()}
    T = text()["messages"]
    server_side = sorted(i for i, n in tids.items() if i not in (5,))
    client_side = sorted(i for i, n in tids.items() if SRC[T[n]["source"]] != 1 and i not in (5, 6))
    frames = []
    mx = max(tids)
    for _ in range(draw(st.integers(1, 12))):
        if draw(st.integers(0, 5)) == 0:  # undeclared id, possibly repeated
            u = draw(st.sampled_from([mx + 1, mx + 2, 0, 200, 65535, 256 + 25, 256 + 7, 512 + 26, 256 * 5 + 5, 256 * 3 + mx, 2**32 + 7, 2**32 + 26, 2**33 + 36, 2**35 + 25, 2**63 + 26]))
            frames += [[u, {"hex": draw(st.sampled_from(["", "0801", "0d0000803f"]))}]] * draw(st.integers(1, 3))
            continue
        i = draw(st.sampled_from(server_side))
        frames.append([i, draw(pbgen.message_strategy(getattr(api_pb2, tids[i])))])
    send = []
    for _ in range(draw(st.integers(0, 6))):
        i = draw(st.sampled_from(client_side))
        send.append([i, draw(pbgen.message_strategy(getattr(api_pb2, tids[i])))])
    out = {"kind": "route", "noise": draw(st.booleans()) and all(f[0] <= 65535 for f in frames), "frames": frames, "send": send}
    if draw(st.integers(0, 3)) == 1:
        out["send_idless"] = draw(st.lists(st.sampled_from(idless_names()), min_size=1, max_size=3))
    if draw(st.integers(0, 2)) == 0:
        out["misalign"] = draw(st.lists(st.sampled_from([0, 1, 2, 3, 4, 6, 9, 30]), min_size=1, max_size=4))
    return out


@st.composite
def _sweep(draw, tier):
    ms = _api_methods()
    calls = [[draw(st.sampled_from(ms)), draw(st.integers(0, 5))] for _ in range(draw(st.integers(1, 8)))]
    return {
        "kind": "sweep", "noise": draw(st.integers(0, 3)) == 0, "login": draw(st.booleans()),
        "api": draw(st.sampled_from([[1, 0], [1, 2], [1, 4], [1, 10]])), "calls": calls,
        "unsub": draw(st.booleans()), "peer": draw(st.sampled_from([None, "ping", "time"])), "stimulate": draw(st.sampled_from([None, None, True, "then_wait"])),
        "tick": draw(st.integers(0, 3)) == 0, "end": draw(st.sampled_from(["disconnect", "force", "peer"])), "silent": draw(st.integers(0, 4)) == 0,
    }


@st.composite
def _poison(draw, tier):
    ids_ = sorted(i for i, n in text_ids().items() if SRC[text()["messages"][n[0]]["source"]] != 2 and i not in (5, 7, 36))
    return {"kind": "poison", "id": draw(st.sampled_from(ids_)), "noise": draw(st.booleans()), "hex": draw(st.sampled_from(["ffffffffffffffffffffff", "0a02fffe", "12", "0dff"]))}


def strategy(tier):
    return st.one_of(_route(tier), _sweep(tier), _sweep(tier), _poison(tier))


def enumerated(tier):
    yield {"kind": "tables"}
    tids = text_ids()
    for i in sorted(tids):
        yield {"kind": "id", "id": i}
    # every declared id routed once with an empty payload, 16 per session; every client/both id sent once
    T = text()["messages"]
    ids_ = [i for i in sorted(tids) if i != 5]
    cs = [i for i in sorted(tids) if SRC[T[tids[i][0]]["source"]] != 1 and i not in (5, 6)]
    for lo in range(0, len(ids_), 16):
        yield {"kind": "route", "noise": (lo // 16) % 2 == 1, "frames": [[i, {}] for i in ids_[lo:lo + 16]], "send": [[i, {}] for i in cs[lo // 2: lo // 2 + 8]]}
    yield {"kind": "route", "noise": False, "frames": [[7, {}], [5, {}]], "send": []}
    for i in (27, 26, 10, 35, 29):
        yield {"kind": "poison", "id": i, "noise": i == 26}
    # reads that end inside the next frame (header only / into the payload), same-size and different-size neighbours
    for noise in (False, True):
        for mis in ([1], [2], [3], [4], [6], [4, 0, 6], [9, 9, 1]):
            yield {"kind": "route", "noise": noise, "misalign": mis, "send": [],
                   "frames": [[26, {"key": 1, "state": True}], [21, {"key": 2, "state": True}], [26, {"key": 3}], [25, {"key": 4, "state": {"f32": 0x3FC00000}}], [27, {"key": 5, "state": "abcdefgh"}], [21, {"key": 6}], [7, {}], [26, {"key": 7}]]}
    for n in idless_names():
        yield {"kind": "route", "noise": False, "frames": [[8, {}]], "send": [[7, {}], [8, {}]], "send_idless": [n, n]}
    # numbers congruent to declared ids modulo 2^32 / 2^64 are not declared either (plaintext type numbers are varints)
    for u in (2**32 + 7, 2**32 + 36, 2**32 + 26, 2**33 + 25, 2**35 + 27, 2**63 + 26, 2**64 + 7):
        yield {"kind": "route", "noise": False, "frames": [[26, {}], [u, {"hex": ""}], [u, {"hex": "0801"}], [25, {}]], "send": []}
    # requests whose serialised size walks across the one-byte/two-byte length boundary of the plaintext frame
    id_by_name = {n[0]: i for i, n in text_ids().items()}
    for L in range(118, 128):
        yield {"kind": "route", "noise": L % 2 == 0, "frames": [[8, {}]], "send": [[id_by_name["TextCommandRequest"], {"key": 1, "state": "x" * L}], [id_by_name["SelectCommandRequest"], {"key": 2, "state": "y" * (L + 1)}], [7, {}]]}
    yield {"kind": "route", "noise": True, "frames": [[8, {}]], "send": [], "send_idless": idless_names()}
    mx = max(tids)
    for u in (0, mx + 1, 65535, 256 + 25, 256 + 26, 512 + 7, 256 * 4 + 36, 256 + 5):
        for known in (25, 26, mx):
            yield {"kind": "route", "noise": u == 65535, "frames": [[known, {}], [u, {"hex": "0801"}], [u, {"hex": "0801"}], [u, {"hex": ""}], [known, {}]], "send": []}
            if u != 65535:  # ... and over the other framing (the 16-bit type field of a Noise frame)
                yield {"kind": "route", "noise": True, "frames": [[known, {}], [u, {"hex": "0801"}], [u, {"hex": ""}], [known, {}]], "send": []}
    subs = [m for m in _api_methods() if m.startswith("subscribe_")] + ["bluetooth_gatt_start_notify", "bluetooth_device_connect"]
    for v in range(6):
        for stim in (True, "then_wait"):
            yield {"kind": "sweep", "noise": v == 5, "login": True, "api": [1, 10], "calls": [[m, v] for m in subs], "unsub": True, "peer": None, "tick": False, "end": "disconnect", "stimulate": stim}
            for m in subs:
                yield {"kind": "sweep", "noise": False, "login": True, "api": [1, 10], "calls": [[m, v]], "unsub": v % 2 == 0, "peer": None, "tick": False, "end": "force", "stimulate": stim}
    for m in _api_methods():
        # error paths: the device never answers, awaitable calls end by their timeout
        yield {"kind": "sweep", "noise": False, "login": True, "api": [1, 10], "calls": [[m, 1]], "unsub": True, "peer": None, "tick": False, "end": "disconnect", "silent": True}
    for m in _api_methods():
        for v in range(6):
            yield {"kind": "sweep", "noise": v == 5, "login": v != 4, "api": [[1, 10], [1, 0], [1, 2], [1, 4], [1, 10], [1, 10]][v], "calls": [[m, v]],
                   "unsub": True, "peer": [None, "ping", "time"][v % 3], "tick": v == 0, "end": ["disconnect", "force", "peer"][v % 3]}


def post_run(total, tier):
    unc = apisurface.uncovered()
    total.extra["public_methods"] = len(apisurface.public_methods())
    total.extra["distinct_ids_sent"] = len(total.extra.get("sent_ids", {}))
    total.extra["distinct_classes_subscribed"] = len(total.extra.get("subscribed_classes", {}))
    total.extra["distinct_methods_called"] = len(total.extra.get("methods_called", {}))
    total.extra["methods_without_recipe"] = unc
    return None
