"""C10 – keepalive: ping only when idle; silent peer dropped in (5.5K, 6.5K]; live never.

Layer S.  An established session on the virtual clock; the device does not answer
pings by itself – every arrival is part of the generated schedule.  Oracle: a
20-line reference model of the keepalive (ticks every K; a tick pings iff nothing
arrived in the preceding interval; first such ping arms a deadline 4.5K later; any
arrival clears it; deadline reached = dead).  Compared: exact multiset of virtual
timestamps of PingRequest frames seen by the device, death time, the error a
long-timeout waiter receives (PingFailedAPIError) and the stop callback (False).
"""
from __future__ import annotations

from hypothesis import strategies as st

from vf import wire
from vf.runner import CaseResult, HarnessError, Violation
from vf.sess import Session
from vf.simloop import IterationCap

ID = "C10"
LEVEL = "exploration"
RULE = (
    "case = keepalive K in {0.5,1,2,7.25,20,32} (dyadic, exact) or an arbitrary float (tolerance 1e-6 s per tick), "
    "plaintext|noise, and a schedule of device messages: arrival instants t0 + odd multiples of K/128 (never tie with a "
    "tick or a deadline), types drawn from all server-sendable message ids (PingResponse included; with and without a "
    "subscriber), gaps biased to just before/after a tick, 4.5K +- K/128 and long silences, horizon <= 60K, then silence "
    "or a cut-off; optionally every read that completes a message also carries the first 1-2 bytes of the next one (reads not aligned to frames). Exhaustive sub-domain: all presence patterns of one message per half-interval slot over 10 (quick) / "
    "14 (thorough) slots. non-trivial = at least one message falls inside a pong window (a deadline is armed) or "
    "within K/64 of a tick."
)
ASSUMPTIONS = [
    "arrivals never tie with a keepalive tick or pong deadline (odd multiples of K/128)",
    "t0 = the instant connect() returned; the device answers nothing by itself after the login",
    "the death is observed as: CLOSED state write, stop callback argument and the error received by a pending request with a huge timeout",
]
EXHAUSTIVE_NOTE = "all 2^10 (quick) / 2^14 (thorough) presence patterns over half-interval slots, K=2"
BUDGET = {"quick": {"examples": 350, "shards": 4}, "thorough": {"examples": 8000, "shards": 16}}
FLOORS = {"msg_in_pong_window": 0.25, "msg_near_tick": 0.15, "died": 0.5}

K_DYADIC = [0.5, 1.0, 2.0, 7.25, 20.0, 32.0]
START_OFF = 0.0
EXCLUDED_TYPES = {5, 122}  # DisconnectRequest closes the session; 122 would answer the probe request


def server_types() -> list[int]:
    src = wire.descriptor_sources()
    by_id, _ = wire.ids()
    return sorted(i for i, c in by_id.items() if src[c.__name__] in (0, 1) and i not in EXCLUDED_TYPES)


def model(K: float, t0: float, msgs: list[float], horizon: float | None):
    """-> (ping times, death time | None).  Messages precede timers on ties (never generated)."""
    timeout = K * 4.5
    pending, deadline, tick, pings, i = True, None, t0 + K, [], 0
    msgs = sorted(msgs)
    while True:
        cands = [x for x in (tick, deadline, msgs[i] if i < len(msgs) else None) if x is not None]
        nxt = min(cands)
        if horizon is not None and nxt > horizon:
            return pings, None
        if i < len(msgs) and msgs[i] == nxt:
            pending, deadline, i = False, None, i + 1
            continue
        if deadline is not None and deadline == nxt:
            return pings, deadline
        if pending:
            pings.append(tick)
            if deadline is None:
                deadline = tick + timeout
        pending, tick = True, tick + K


def run_case(case: dict) -> CaseResult:
    K = float(case["K"])
    noise = bool(case.get("noise"))
    exact = K in K_DYADIC
    horizon_k = case.get("cut_at_k")  # stop observing at t0 + cut*K (None: run until dead)
    res = CaseResult()
    s = Session(noise=noise, login=bool(case.get("login", True)), keepalive=K, auto=set())
    env = s.env
    got_cb: list = []
    state = {"t0": None, "arrivals": []}
    sub_types = set(case.get("subscribe", []))
    by_id, _ = wire.ids()

    def then(sess: Session):
        t0 = sess.t0
        state["t0"] = t0
        for tid in sub_types:
            sess.conn.add_message_callback(lambda m: got_cb.append(type(m).__name__), (by_id[tid],))
        mis = int(case.get("misalign", 0))
        # (with an abandoned disconnect() pending a DisconnectResponse would be its answer and end the session: sent as a pong instead)
        sched = [(t0 + off * (K / 128), 8 if (tid == 6 and case.get("abandon")) else tid) for off, tid in case["msgs"]]
        for t, tid in sched:
            state["arrivals"].append(t)
        if not mis:
            for t, tid in sched:
                sess.device_send_at(t, (tid, b""))
        else:
            # TCP reads not aligned to frame boundaries: the read that completes message i also carries the first
            # `mis` bytes of message i+1 (whose last byte arrives at its own instant) – arrival instants unchanged
            carry = {"tail": None}

            def go(i):
                ds = env.dev.session
                tr = ds.transport
                if tr.closing:
                    return
                cur = carry["tail"] if i else ds.encode((sched[0][1], b""))
                data = cur
                if i + 1 < len(sched):
                    nxt = ds.encode((sched[i + 1][1], b""))
                    k = min(mis, len(nxt) - 1)
                    data += nxt[:k]
                    carry["tail"] = nxt[k:]
                tr.feed(data)

            for i, (t, _tid) in enumerate(sched):
                env.loop.sim_at(t, go, i)
        # the transport's flow-control callbacks (write buffer above / below its water marks) are no messages and
        # no reason to skip a tick: they change nothing in the keepalive schedule
        for on, off in case.get("pauses", []):
            proto = env.dev.session.transport.proto
            env.loop.sim_at(t0 + on * (K / 128), lambda p=proto: None if env.dev.session.transport.closing else p.pause_writing())
            env.loop.sim_at(t0 + off * (K / 128), lambda p=proto: None if env.dev.session.transport.closing else p.resume_writing())
        # application requests that run into their own (short) timeout, e.g. inside a pong window: a request timing out
        # is the request's business, the keepalive schedule and the moment of death do not move
        for ri, (off, tmo) in enumerate(case.get("reqs", [])):
            env.loop.sim_at(t0 + off * (K / 128), lambda ri=ri, tmo=tmo: None if sess.conn.connection_state.name != "CONNECTED" else
                            env.spawn(f"req{ri}", sess.cli.get_voice_assistant_configuration(timeout=tmo * (K / 128))))
        # the application asks for the device's description; the answer (an arrival like any other) says the device is
        # one that sleeps -- the keepalive rules and the kind of stop do not depend on what the device says about itself
        if case.get("devinfo") is not None:
            from aioesphomeapi import api_pb2 as pb

            off = int(case["devinfo"])
            env.loop.sim_at(t0 + off * (K / 128), lambda: None if sess.conn.connection_state.name != "CONNECTED" else env.spawn("devinfo", sess.cli.device_info()))
            ta = t0 + (off + 2) * (K / 128)
            state["arrivals"].append(ta)
            sess.device_send_at(ta, pb.DeviceInfoResponse(name="dev", has_deep_sleep=True, mac_address="AA:BB:CC:DD:EE:FF"))
        # the application keeps sending fire-and-forget commands: what the CLIENT writes is no sign of life from the
        # device -- ticks, pings and the moment of death are those of the arrivals alone
        for off in case.get("sends", []):
            env.loop.sim_at(t0 + off * (K / 128), lambda: None if sess.conn.connection_state.name != "CONNECTED" else sess.cli.switch_command(1, True))
        # a graceful disconnect() the caller gives up on (its task is cancelled before the device answered -- it never
        # does): the session is still established and keeps being watched
        if case.get("abandon"):
            off, dur = case["abandon"]

            def start_abandon():
                if sess.conn.connection_state.name == "CONNECTED":
                    env.spawn("abandon", sess.cli.disconnect())
                    env.loop.sim_after(min(dur * (K / 128), 9.0), env.cancel, "abandon")

            env.loop.sim_at(t0 + off * (K / 128), start_abandon)
        # a waiter with a huge timeout observes the connection's fatal error
        env.spawn("probe", sess.cli.get_voice_assistant_configuration(timeout=1e5))
        from vf.simloop import START

        if horizon_k is not None:
            env.loop.horizon = START + t0 + horizon_k * K
        else:
            # the model says when the peer must be declared dead; observe 8K longer, not forever
            _p, d = model(K, t0, state["arrivals"], None)
            env.loop.horizon = START + d + 8 * K

    s.start(then)
    try:
        s.run()
    except IterationCap as e:
        s.close()
        raise HarnessError(f"C10 iteration cap: {e}") from e
    t0 = state["t0"]
    if t0 is None:
        s.close()
        raise HarnessError("C10: session was not established")
    horizon = None if horizon_k is None else t0 + horizon_k * K
    exp_pings, exp_death = model(K, t0, state["arrivals"], horizon)
    got_pings = [e["t"] for e in env.trace if e["kind"] == "rx" and e["type"] == 7]
    closed = [e["t"] for e in env.trace if e["kind"] == "state" and e["value"].name == "CLOSED"]
    got_death = closed[0] if closed else None
    tol = 0.0 if exact else 1e-6 * (len(exp_pings) + 70)

    def same(a, b):
        return a == b if tol == 0.0 else abs(a - b) <= tol

    def rel(x):
        return None if x is None else round((x - t0) / K, 4)

    if len(got_pings) != len(exp_pings) or any(not same(a, b) for a, b in zip(sorted(got_pings), exp_pings)):
        extra = [rel(x) for x in got_pings if not any(same(x, y) for y in exp_pings)][:4]
        missing = [rel(y) for y in exp_pings if not any(same(x, y) for x in got_pings)][:4]
        sig = "c10:ping-times:" + ("unexpected-ping" if extra and not missing else "missing-ping" if missing and not extra else "differ")
        res.violations.append(
            Violation(ID, sig, f"K={K}: pings (in K after connect) unexpected {extra} missing {missing}; got {len(got_pings)} expected {len(exp_pings)}")
        )
    if (got_death is None) != (exp_death is None) or (exp_death is not None and not same(got_death, exp_death)):
        if got_death is None:
            sig = "c10:death:never-declared-dead"
        elif exp_death is None:
            sig = "c10:death:declared-dead-while-alive"
        else:
            sig = "c10:death:too-early" if got_death < exp_death else "c10:death:too-late"
        res.violations.append(Violation(ID, sig, f"K={K}: death at {rel(got_death)}K, model says {rel(exp_death)}K (after connect)"))
    if got_death is not None and exp_death is not None:
        pr = env.results.get("probe")
        if pr is None or pr[0] != "exc" or type(pr[1]).__name__ != "PingFailedAPIError":
            res.violations.append(Violation(ID, "c10:death-cause:waiter-error", f"pending request got {pr and (pr[0], type(pr[1]).__name__)} instead of PingFailedAPIError"))
        if case.get("abandon") and [x[1] for x in s.stops] == [True]:
            pass  # a graceful disconnect had been initiated (and abandoned): the flag says so (C07); C10 does not judge it
        elif [x[1] for x in s.stops] != [False]:
            res.violations.append(Violation(ID, "c10:death-cause:on_stop", f"stop callback calls {s.stops}, expected one call with False"))
        # derived bound of the statement: silent at t => dead within (t+5.5K, t+6.5K]
        last = max([t0] + [a for a in state["arrivals"] if a < got_death])
        gap = (got_death - last) / K
        if not (5.5 - 1e-9 < gap <= 6.5 + 1e-9):
            res.violations.append(Violation(ID, "c10:detection-window", f"dead {gap:.4f}K after the last sign of life"))
    for ri, (off, tmo) in enumerate(case.get("reqs", [])):
        rr = env.results.get(f"req{ri}")
        if rr is None:
            continue  # started after the death / beyond the horizon
        t_end_want = t0 + (off + tmo) * (K / 128)
        if rr[0] == "exc" and type(rr[1]).__name__ == "TimeoutAPIError":
            if not same(rr[3] + START_OFF, t_end_want + START_OFF) and (got_death is None or rr[3] < got_death - 1e-6):
                res.violations.append(Violation(ID, "c10:request-timeout-instant", f"request {ri} timed out at {rel(rr[3])}K, its timeout ends at {rel(t_end_want)}K"))
        elif rr[0] == "exc" and got_death is not None and abs(rr[3] - got_death) <= 1e-6:
            pass  # failed with the connection
        elif rr[0] == "ok":
            res.violations.append(Violation(ID, "c10:request-answered-by-nobody", f"request {ri}"))
    # classes
    classes = set()
    if case.get("reqs"):
        classes.add("requests_timing_out")
    arr = sorted(state["arrivals"])
    # replay model to find armed windows
    tick = t0 + K
    for a in arr:
        off = (a - t0) / K
        frac = off - int(off)
        if min(frac, 1 - frac) <= 1 / 64 + 1e-12:
            classes.add("msg_near_tick")
    # message inside a pong window: between a ping and its deadline
    for p in exp_pings:
        if any(p < a < p + 4.5 * K for a in arr):
            classes.add("msg_in_pong_window")
            break
    if exp_death is not None:
        classes.add("died")
    if sub_types:
        classes.add("with_subscriber")
    if noise:
        classes.add("noise")
    if case.get("pauses"):
        classes.add("writing_paused")
    if case.get("devinfo") is not None:
        classes.add("device_says_it_sleeps")
    if case.get("abandon"):
        classes.add("graceful_disconnect_abandoned")
    if case.get("sends"):
        classes.add("client_keeps_sending")
    if not exact:
        classes.add("non_dyadic_K")
    res.classes = sorted(classes)
    res.nontrivial = bool({"msg_in_pong_window", "msg_near_tick"} & classes)
    res.info = {"K": K, "pings_K": [rel(x) for x in got_pings][:12], "death_K": rel(got_death), "msgs": len(arr)}
    s.close()
    return res


# ------------------------------------------------------------------ generators
@st.composite
def _case(draw, tier):
    K = draw(st.one_of(st.sampled_from(K_DYADIC), st.sampled_from(K_DYADIC), st.sampled_from([0.3, 1.1, 20.0, 3.3, 0.7, 59.9])))
    types = server_types()
    n = draw(st.integers(0, 40 if tier == "thorough" else 24))
    offs = []
    cur = 0
    for _ in range(n):
        gap = draw(
            st.one_of(
                st.sampled_from([1, 3, 127, 129, 125, 131, 63, 65, 255, 257, 575, 577, 573, 4.5 * 128 - 1, 4.5 * 128 + 1, 5.5 * 128 - 1, 5.5 * 128 + 1, 6.5 * 128 - 1]),
                st.integers(1, 200),
                st.integers(1, 1200),
            )
        )
        gap = int(gap)
        cur += gap
        if cur % 2 == 0:
            cur += 1
        if cur > 60 * 128:
            break
        offs.append(cur)
    msgs = [[o, draw(st.one_of(st.sampled_from([8, 8, 26, 25, 7, 36, 29]), st.sampled_from(types)))] for o in offs]
    case = {"K": K, "noise": draw(st.integers(0, 3)) == 0, "msgs": msgs}
    if draw(st.integers(0, 2)) == 0:
        case["login"] = False  # a session established without the login exchange (the default of connect()) is a session too
    if draw(st.booleans()):
        case["subscribe"] = sorted(set(draw(st.lists(st.sampled_from([8, 26, 25, 29] + types[:10]), max_size=3))))
    if draw(st.integers(0, 4)) == 0:
        case["cut_at_k"] = draw(st.sampled_from([3.25, 5.75, 10.25, 20.75, 61.25]))
    if draw(st.integers(0, 2)) == 0:
        case["misalign"] = draw(st.sampled_from([1, 2, 2]))
    if draw(st.integers(0, 3)) == 1:
        case["reqs"] = [[2 * draw(st.integers(0, 30 * 64)), 2 * draw(st.one_of(st.integers(1, 64), st.integers(1, 64 * 5)))] for _ in range(draw(st.integers(1, 3)))]
    if draw(st.integers(0, 3)) == 0:
        on = 2 * draw(st.integers(0, 20 * 64))
        case["pauses"] = [[on, on + 2 * draw(st.one_of(st.integers(1, 100), st.integers(64, 64 * 12)))]]
    if not case.get("misalign") and draw(st.integers(0, 3)) == 0:
        case["devinfo"] = 2 * draw(st.integers(0, 10 * 64)) + 1
    if draw(st.integers(0, 3)) == 0:
        every = draw(st.sampled_from([16, 50, 64, 100, 128]))
        first = draw(st.integers(0, 2 * 128))
        case["sends"] = list(range(first, first + 40 * 128, every))
    if draw(st.integers(0, 3)) == 0:
        case["abandon"] = [2 * draw(st.integers(0, 20 * 64)), 2 * draw(st.one_of(st.integers(1, 64), st.integers(1, 64 * 6)))]
    return case


def strategy(tier):
    return _case(tier)


def enumerated(tier):
    nslots = 10 if tier == "quick" else 14
    for pat in range(2**nslots):
        msgs = [[64 * i + 33 if (64 * i + 33) % 2 else 64 * i + 32 + 1, 8] for i in range(nslots) if pat >> i & 1]
        yield {"K": 2.0, "noise": False, "msgs": msgs}
    # the same patterns with reads that end inside the next frame (every 4th pattern)
    for pat in range(1, 2**nslots, 4):
        msgs = [[64 * i + 33 if (64 * i + 33) % 2 else 64 * i + 32 + 1, 8] for i in range(nslots) if pat >> i & 1]
        yield {"K": 2.0, "noise": pat % 3 == 0, "msgs": msgs, "misalign": 1 + pat % 2}
    for pat in range(3, 2**nslots, 16):
        msgs = [[64 * i + 33 if (64 * i + 33) % 2 else 64 * i + 32 + 1, 8] for i in range(nslots) if pat >> i & 1]
        yield {"K": 2.0, "noise": pat % 3 == 0, "msgs": msgs, "pauses": [[2 * (pat % 97), 2 * (pat % 97) + 64 * (1 + pat % 11)]]}
    yield {"K": 2.0, "noise": False, "msgs": [], "pauses": [[2, 20 * 128]]}
    for pat in (0, 5, 37, 301, 682):
        msgs = [[64 * i + 33 if (64 * i + 33) % 2 else 64 * i + 32 + 1, 8] for i in range(nslots) if pat >> i & 1]
        yield {"K": 2.0, "noise": pat % 2 == 1, "msgs": msgs, "login": False}
    for pat in (0, 5, 37, 301, 682):
        msgs = [[64 * i + 33 if (64 * i + 33) % 2 else 64 * i + 32 + 1, 8] for i in range(nslots) if pat >> i & 1]
        for every in (32, 100):
            yield {"K": 2.0, "noise": pat % 2 == 1, "msgs": msgs, "sends": list(range(10, 30 * 128, every))}
    for pat in (0, 5, 37, 301, 682):
        msgs = [[64 * i + 33 if (64 * i + 33) % 2 else 64 * i + 32 + 1, 8] for i in range(nslots) if pat >> i & 1]
        for K in (2.0, 8.0):
            yield {"K": K, "noise": pat % 2 == 1, "msgs": msgs, "devinfo": 41}
            for off, dur in ((40, 20), (40, 300), (200, 64), (700, 100)):
                yield {"K": K, "noise": pat % 2 == 0, "msgs": msgs, "abandon": [off, dur]}
    # requests timing out inside the pong window of the first / a later ping
    for off in (130, 200, 300, 400, 600):
        for tmo in (20, 64, 128, 250):
            yield {"K": 2.0, "noise": tmo == 64, "msgs": [], "reqs": [[off, tmo]]}
            yield {"K": 2.0, "noise": False, "msgs": [[129 + 128 * 5 + 33, 8]], "reqs": [[off, tmo], [off + 700, tmo]]}
    # every server-sendable type once as the only sign of life inside a pong window
    for tid in server_types():
        yield {"K": 1.0, "noise": False, "msgs": [[129 + 2 * (tid % 50), tid]], "subscribe": [tid] if tid % 2 else []}
