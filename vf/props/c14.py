"""C14 – models mirror the wire schema; conversion is total and value-preserving.

Layer D (no event loop).  Case kinds
  schema   (exhaustive) one case per model enum paired with a wire enum (values, aliases, names)
           and one per (wire message -> model class) pair (field names).
  convert  a generated wire message of a paired type is converted with Model.from_pb; every field
           of the result is compared with the value computed from the DESCRIPTOR (not from the
           model's converters); entity-info / entity-state / DeviceInfo / UserService results also
           go through from_dict(to_dict(x)).
  adv      BluetoothLEAdvertisementResponse -> BluetoothLEAdvertisement (special-cased converter).
  floats   float32 bit patterns through the single-precision fix: directly and through a model.
  order    history independence: in a FRESH interpreter a list of model classes (base classes first,
           arbitrary permutations) is instantiated before a fixed conversion battery runs.
"""
from __future__ import annotations

import dataclasses
import math
import os
import struct

from google.protobuf.descriptor import FieldDescriptor as FD
from hypothesis import strategies as st

from vf import pbgen
from vf.runner import CaseResult, HarnessError, Violation

ID = "C14"
LEVEL = "exploration"
RULE = (
    "schema cases: every model enum x its wire enum, every (message, model class) pair - each one distinct case, all "
    "enumerated. convert cases: a message of one of the 68 paired types built from a descriptor-driven spec "
    "(boundary/random ints, float32 bit patterns incl. +-0, denormals, inf, NaN, unicode strings, bytes, enum numbers "
    "defined (p>=2/3) and undefined, repeated and nested fields; GATT uuids exactly two uint64, service maps with unique "
    "keys); enumerated: every enum field x every wire number of its enum + 3 undefined numbers. floats: 7-significant-"
    "digit oracle float('%.6e' % v) over stratified bit patterns (all 256 exponents, neighbourhoods of powers of ten, "
    "denormals, specials) - quick 2^18 patterns, thorough 2^28. non-trivial = message with >=1 non-default field, an "
    "enum case with an undefined number, a float away from {0,1}, or any schema case."
)
ASSUMPTIONS = [
    "pairing of model enums with wire enums is derived from usage (the enum type of the protobuf field feeding a model field whose converter is X.convert / X.convert_list) plus a 9-entry alias table for command-side enums; an unpaired APIIntEnum subclass is reported in evidence, not as a violation",
    "(message -> model) pairs come from SUBSCRIBE_STATES_RESPONSE_TYPES, LIST_ENTITIES_SERVICES_RESPONSE_TYPES and the from_pb call sites; each pair is cross-checked by the field-name rule",
    "the 'designated' single-precision fields are pinned in this module (DESIGNATED) as they are on the pinned tree; a float field absent from the table is accepted raw or rounded",
    "CameraState is built by reassembly (C17), not from_pb, and is excluded from the field-name rule",
    "generator preconditions from callers/devices: GATT uuid fields carry exactly two uint64; advertisement uuids are '0xNNNN' or 36-char strings; service-map keys unique; NaN compared NaN-aware, zero compared with its sign",
]
EXHAUSTIVE_NOTE = "schema: all 29 model enums and 68 class pairs; enum fields: every wire number + 3 undefined; floats: 2^18 (quick) / 2^28 (thorough) stratified bit patterns"
BUDGET = {"quick": {"examples": 1200, "shards": 8}, "thorough": {"examples": 25000, "shards": 16}}
FLOORS = {"undefined_enum": 0.05, "nonfinite_or_zero_float": 0.02}

ALIAS = {
    "AlarmControlPanelCommand": "AlarmControlPanelStateCommand", "BluetoothDeviceRequestType": "BluetoothDeviceRequestType",
    "LegacyCoverCommand": "LegacyCoverCommand", "LockCommand": "LockCommand", "LogLevel": "LogLevel",
    "MediaPlayerCommand": "MediaPlayerCommand", "UpdateCommand": "UpdateCommand",
    "VoiceAssistantEventType": "VoiceAssistantEvent", "VoiceAssistantTimerEventType": "VoiceAssistantTimerEvent",
}
# model class -> float field -> rounded to 7 significant digits (True) / presented raw (False), as on the pinned tree
DESIGNATED = {
    "ClimateState": {"current_temperature": True, "target_temperature": True, "target_temperature_low": True, "target_temperature_high": True, "current_humidity": False, "target_humidity": False},
    "CoverState": {"position": True, "tilt": True},
    "LightState": {"brightness": True, "color_brightness": True, "red": True, "green": True, "blue": True, "white": True, "color_temperature": True, "cold_white": True, "warm_white": True},
    "ClimateInfo": {"visual_min_temperature": True, "visual_max_temperature": True, "visual_target_temperature_step": True, "visual_current_temperature_step": True, "visual_min_humidity": False, "visual_max_humidity": False},
    "LightInfo": {"min_mireds": True, "max_mireds": True},
    "NumberInfo": {"min_value": True, "max_value": True, "step": True},
    "MediaPlayerEntityState": {"volume": True},
    "NumberState": {"state": True},
    "SensorState": {"state": False},
    "UpdateState": {"progress": False},
    "ValveState": {"position": True},
    "VoiceAssistantAudioSettings": {"volume_multiplier": False},
}

_CACHE: dict = {}


def V(sig, detail=""):
    return Violation(ID, sig, detail)


def tables():
    if _CACHE:
        return _CACHE
    from aioesphomeapi import api_pb2 as pb
    from aioesphomeapi import model as M
    from aioesphomeapi import model_conversions as MC

    pairs: dict[str, type] = {}
    state_pairs, info_pairs = {}, {}
    # state messages are found from the compiled api.proto, not from the library's own subscription table: every
    # server-originated message with a `key` and no `object_id` (ListEntities*), camera chunks aside; its model is the
    # class named like the message without "Response" (AlarmControlPanelState -> ...EntityState)
    from vf import wire as _wire

    _src = _wire.descriptor_sources()
    for _i, _c in sorted(_wire.ids()[0].items()):
        _fn = [f.name for f in _c.DESCRIPTOR.fields]
        if _src[_c.__name__] == 1 and "key" in _fn and "object_id" not in _fn and not _c.__name__.startswith("ListEntities") and _c.__name__ != "CameraImageResponse":
            _base = _c.__name__[: -len("Response")]
            _cands = [getattr(M, _base, None), getattr(M, _base.replace("State", "EntityState"), None)]
            _m = next((x for x in _cands if isinstance(x, type) and issubclass(x, M.EntityState)), None)
            if _m is None:
                raise RuntimeError(f"no model class found for state message {_c.__name__}")
            pairs[_c.__name__] = _m
            state_pairs[_c.__name__] = _m
    # entity-info messages likewise: ListEntities<X>Response -> <X>Info
    for _i, _c in sorted(_wire.ids()[0].items()):
        _n = _c.__name__
        if _n.startswith("ListEntities") and _n.endswith("Response") and _n not in ("ListEntitiesDoneResponse", "ListEntitiesServicesResponse"):
            _m = getattr(M, _n[len("ListEntities"): -len("Response")] + "Info", None)
            if _m is None:
                raise RuntimeError(f"no model class found for entity-info message {_n}")
            pairs[_n] = _m
            info_pairs[_n] = _m
    extra = {
        "DeviceInfoResponse": "DeviceInfo", "ListEntitiesServicesResponse": "UserService", "ListEntitiesServicesArgument": "UserServiceArg",
        "HomeassistantServiceResponse": "HomeassistantServiceCall",
        "BluetoothDeviceConnectionResponse": "BluetoothDeviceConnection", "BluetoothDevicePairingResponse": "BluetoothDevicePairing",
        "BluetoothDeviceUnpairingResponse": "BluetoothDeviceUnpairing", "BluetoothDeviceClearCacheResponse": "BluetoothDeviceClearCache",
        "BluetoothGATTReadResponse": "BluetoothGATTRead", "BluetoothGATTGetServicesResponse": "BluetoothGATTServices",
        "BluetoothGATTService": "BluetoothGATTService", "BluetoothGATTCharacteristic": "BluetoothGATTCharacteristic",
        "BluetoothGATTDescriptor": "BluetoothGATTDescriptor", "BluetoothConnectionsFreeResponse": "BluetoothConnectionsFree",
        "BluetoothGATTErrorResponse": "BluetoothGATTError", "VoiceAssistantRequest": "VoiceAssistantCommand",
        "VoiceAssistantAudioSettings": "VoiceAssistantAudioSettings", "VoiceAssistantAudio": "VoiceAssistantAudioData",
        "VoiceAssistantAnnounceFinished": "VoiceAssistantAnnounceFinished", "VoiceAssistantConfigurationResponse": "VoiceAssistantConfigurationResponse",
        "VoiceAssistantWakeWord": "VoiceAssistantWakeWord", "MediaPlayerSupportedFormat": "MediaPlayerSupportedFormat",
        "VoiceAssistantSetConfiguration": "VoiceAssistantSetConfiguration", "VoiceAssistantConfigurationRequest": "VoiceAssistantConfigurationRequest",
    }
    for k, v in extra.items():
        pairs[k] = getattr(M, v)
    pairs.pop("CameraImageResponse", None)
    model_enums = {n: c for n, c in vars(M).items() if isinstance(c, type) and issubclass(c, M.APIIntEnum) and c is not M.APIIntEnum}
    wire_enums = dict(pb.DESCRIPTOR.enum_types_by_name)
    enum_pair: dict[str, set] = {}
    for mn, mc in pairs.items():
        d = getattr(pb, mn).DESCRIPTOR
        for f in dataclasses.fields(mc):
            owner = getattr(f.metadata.get("converter"), "__self__", None)
            if isinstance(owner, type) and issubclass(owner, M.APIIntEnum):
                fd = d.fields_by_name.get(f.name)
                if fd is not None and fd.type == FD.TYPE_ENUM:
                    enum_pair.setdefault(owner.__name__, set()).add(fd.enum_type.name)
    for k, v in ALIAS.items():
        if k in model_enums and v in wire_enums:
            enum_pair.setdefault(k, set()).add(v)
    roundtrip = set(state_pairs) | set(info_pairs) | {"DeviceInfoResponse", "ListEntitiesServicesResponse"}
    _CACHE.update(pairs=pairs, model_enums=model_enums, wire_enums=wire_enums, enum_pair=enum_pair, roundtrip=roundtrip, pb=pb, M=M)
    return _CACHE


# ------------------------------------------------------------------ helpers
def feq(a, b) -> bool:
    if isinstance(a, float) and isinstance(b, float):
        if math.isnan(a) or math.isnan(b):
            return math.isnan(a) and math.isnan(b)
        return a == b and math.copysign(1.0, a) == math.copysign(1.0, b)
    return False


def round7(v: float) -> float:
    """Oracle: 7 significant decimal digits; zero, infinities and NaN unchanged."""
    if v == 0 or not math.isfinite(v):
        return v
    return float("%.6e" % v)


def uuid_str(high: int, low: int) -> str:
    h = "%032x" % ((high << 64) | low)
    return f"{h[:8]}-{h[8:12]}-{h[12:16]}-{h[16:20]}-{h[20:]}"


def deep_eq(a, b) -> bool:
    if isinstance(a, float) or isinstance(b, float):
        if isinstance(a, float) and isinstance(b, float):
            return feq(a, b)
        return a == b and not isinstance(a, bool) and not isinstance(b, bool)
    if isinstance(a, dict) and isinstance(b, dict):
        return a.keys() == b.keys() and all(deep_eq(a[k], b[k]) for k in a)
    if isinstance(a, (list, tuple)) and isinstance(b, (list, tuple)):
        return len(a) == len(b) and all(deep_eq(x, y) for x, y in zip(a, b))
    return a == b


# ------------------------------------------------------------------ schema
def check_enum(name: str) -> list[Violation]:
    T = tables()
    E = T["model_enums"].get(name)
    if E is None:
        return [V(f"c14:enum-missing:{name}")]
    out = []
    members = E.__members__
    if len(members) != len(list(E)):
        al = sorted(n for n, m in members.items() if m.name != n)
        out.append(V(f"c14:enum-alias:{name}", f"aliases {al}: two member names share one value"))
    for wname in sorted(T["enum_pair"].get(name, ())):
        W = T["wire_enums"][wname]
        wv = {v.name: v.number for v in W.values}
        mv = {n: int(m) for n, m in members.items()}
        if set(mv.values()) != set(wv.values()):
            out.append(V(f"c14:enum-values:{name}", f"model values {sorted(set(mv.values()))} wire {wname} values {sorted(set(wv.values()))}"))
        by_num: dict[int, list[str]] = {}
        for n, num in wv.items():
            by_num.setdefault(num, []).append(n)
        for n, num in mv.items():
            names = by_num.get(num, [])
            if names and not any(w == n or w.endswith("_" + n) for w in names):
                out.append(V(f"c14:enum-name:{name}.{n}", f"{name}.{n} = {num} but the wire enum {wname} calls {num} {names}"))
    return out


def check_class(msg_name: str) -> list[Violation]:
    T = tables()
    mc = T["pairs"][msg_name]
    d = getattr(T["pb"], msg_name).DESCRIPTOR
    pf = {f.name for f in d.fields}
    mf = {f.name for f in dataclasses.fields(mc)}
    if pf != mf:
        return [V(f"c14:class-fields:{mc.__name__}", f"{msg_name}: only on the wire {sorted(pf - mf)}, only in the model {sorted(mf - pf)}")]
    return []


# ------------------------------------------------------------------ conversion oracle
def check_obj(obj, mcls, msg, path: str, out: list, cls_counter: set) -> None:
    T = tables()
    if type(obj) is not mcls:
        out.append(V(f"c14:convert:result-type:{mcls.__name__}", f"{path}: got {type(obj).__name__}"))
        return
    d = msg.DESCRIPTOR
    for f in dataclasses.fields(mcls):
        fd = d.fields_by_name.get(f.name)
        if fd is None:
            continue
        got = getattr(obj, f.name)
        v = getattr(msg, f.name)
        p = f"{path}.{f.name}"
        sigbase = f"c14:convert:{mcls.__name__}.{f.name}"
        t = fd.type
        if t == FD.TYPE_MESSAGE:
            sub = fd.message_type.name
            if sub == "HomeassistantServiceMap":
                exp = {x.key: x.value for x in v}
                if got != exp or not isinstance(got, dict):
                    out.append(V(sigbase + ":map", f"{p}: got {got!r} expected {exp!r}"))
                continue
            scls = T["pairs"].get(sub)
            if scls is None:
                raise HarnessError(f"no model pairing for nested message {sub} at {p}")
            if fd.is_repeated:
                if not isinstance(got, list) or len(got) != len(v):
                    out.append(V(sigbase + ":list-length", f"{p}: got {len(got) if isinstance(got, list) else type(got)} items, wire has {len(v)}"))
                    continue
                for i, (g, m) in enumerate(zip(got, v)):
                    check_obj(g, scls, m, f"{p}[{i}]", out, cls_counter)
            else:
                check_obj(got, scls, v, p, out, cls_counter)
        elif t == FD.TYPE_ENUM:
            defined = {x.number for x in fd.enum_type.values}
            if fd.is_repeated:
                exp = [n for n in v if n in defined]
                if len(exp) != len(v):
                    cls_counter.add("undefined_enum")
                ok = isinstance(got, list) and [int(g) for g in got] == exp and all(isinstance(g, T["M"].APIIntEnum) for g in got)
                if not ok:
                    out.append(V(sigbase + ":enum-list", f"{p}: wire {list(v)} -> got {got!r}, expected members {exp}"))
            elif v in defined:
                if got is None:
                    out.append(V(sigbase + ":enum-defined-became-none", f"{p}: wire value {v} is defined by {fd.enum_type.name} but converts to None"))
                elif int(got) != v or not isinstance(got, T["M"].APIIntEnum):
                    out.append(V(sigbase + ":enum-value", f"{p}: wire {v} -> {got!r}"))
            else:
                cls_counter.add("undefined_enum")
                if got is not None:
                    out.append(V(sigbase + ":enum-undefined-not-none", f"{p}: wire value {v} is not defined by {fd.enum_type.name} but converts to {got!r}"))
        elif t == FD.TYPE_FLOAT and not fd.is_repeated:
            des = DESIGNATED.get(mcls.__name__, {}).get(f.name)
            if v == 0 or not math.isfinite(v):
                cls_counter.add("nonfinite_or_zero_float")
            if des is None:
                ok = isinstance(got, float) and (feq(got, v) or feq(got, round7(v)))
            else:
                exp = round7(v) if des else v
                ok = isinstance(got, float) and feq(got, exp)
            if not ok:
                out.append(V(sigbase + (":float-rounding" if des else ":float-changed"), f"{p}: wire {v!r} ({struct.pack('<f', v).hex()}) -> {got!r}, expected {round7(v) if des else v!r}"))
        elif fd.is_repeated and f.name == "uuid" and t == FD.TYPE_UINT64:
            exp = uuid_str(v[0], v[1])
            if got != exp:
                out.append(V(sigbase + ":uuid", f"{p}: {list(v)} -> {got!r} expected {exp}"))
        elif fd.is_repeated:
            exp = list(v)
            # value preservation only: a model may keep any sequence type (some keep the protobuf container)
            if isinstance(got, (str, bytes)) or not hasattr(got, "__len__") or not deep_eq(list(got), exp):
                out.append(V(sigbase + ":list", f"{p}: got {got!r} expected {exp!r}"))
        else:
            if not (deep_eq(got, v) and type(got) is type(v)):
                out.append(V(sigbase + ":value", f"{p}: got {got!r} expected {v!r}"))


def run_convert(case: dict) -> CaseResult:
    T = tables()
    res = CaseResult()
    name = case["msg"]
    mcls = T["pairs"][name]
    msg = pbgen.build(getattr(T["pb"], name), case["spec"])
    classes: set[str] = set()
    try:
        obj = mcls.from_pb(msg)
    except Exception as e:  # noqa: BLE001 – totality: conversion of a valid wire message never fails
        res.violations.append(V(f"c14:convert:raised:{mcls.__name__}:{type(e).__name__}", f"{name} {case['spec']}: {e!r}"))
        res.nontrivial = True
        return res
    check_obj(obj, mcls, msg, mcls.__name__, res.violations, classes)
    if name in T["roundtrip"]:
        classes.add("roundtrip")
        try:
            d = obj.to_dict()
            back = mcls.from_dict(d)
            if type(back) is not mcls or not deep_eq(back.to_dict(), d) or not all(
                deep_eq(getattr(back, f.name), getattr(obj, f.name)) or dataclasses.is_dataclass(getattr(obj, f.name)) or isinstance(getattr(obj, f.name), list)
                for f in dataclasses.fields(mcls)
            ):
                res.violations.append(V(f"c14:roundtrip:differs:{mcls.__name__}", f"to_dict {d!r} -> from_dict -> {back!r}"))
            elif not _same_model(back, obj):
                res.violations.append(V(f"c14:roundtrip:differs:{mcls.__name__}", f"{obj!r} -> {back!r}"))
        except Exception as e:  # noqa: BLE001
            res.violations.append(V(f"c14:roundtrip:raised:{mcls.__name__}:{type(e).__name__}", repr(e)))
    # what a consumer does to the model it was handed (it fills in a dict, appends to a list) stays its own business:
    # the same wire message converted again presents the wire content, not the consumer's additions
    if not res.violations:
        import copy

        try:
            snap = copy.deepcopy(obj)
            touched = False
            for f in dataclasses.fields(mcls):
                v = getattr(obj, f.name)
                if isinstance(v, dict):
                    v["__added_by_the_consumer__"] = "x"
                    touched = True
                elif isinstance(v, list):
                    v.append("__added_by_the_consumer__")
                    touched = True
            if touched:
                classes.add("earlier_result_mutated")
                again = mcls.from_pb(msg)
                if not _same_model(again, snap):
                    res.violations.append(V(f"c14:convert:depends-on-an-earlier-result:{mcls.__name__}", f"{name} {case['spec']}: converted again after the first result had been written to: {again!r}, wire content gives {snap!r}"))
        except (TypeError, AttributeError, dataclasses.FrozenInstanceError):
            pass  # immutable containers: nothing to write to
    res.nontrivial = msg.ByteSize() > 0
    res.classes = sorted(classes | {"convert"})
    res.info = {"msg": name, "bytes": msg.ByteSize()}
    return res


def _same_model(a, b) -> bool:
    """Structural, NaN-aware equality of two model objects (types included)."""
    if dataclasses.is_dataclass(a) and dataclasses.is_dataclass(b):
        if type(a) is not type(b):
            return False
        return all(_same_model(getattr(a, f.name), getattr(b, f.name)) for f in dataclasses.fields(a))
    if isinstance(a, list) and isinstance(b, list):
        return len(a) == len(b) and all(_same_model(x, y) for x, y in zip(a, b))
    if isinstance(a, dict) and isinstance(b, dict):
        return a.keys() == b.keys() and all(_same_model(a[k], b[k]) for k in a)
    if type(a) is not type(b):
        return False
    return deep_eq(a, b)


def run_adv(case: dict) -> CaseResult:
    T = tables()
    res = CaseResult()
    pb, M = T["pb"], T["M"]
    s = case["spec"]
    msg = pb.BluetoothLEAdvertisementResponse(address=s["address"], rssi=s["rssi"], address_type=s["address_type"], name=bytes.fromhex(s["name"]))
    msg.service_uuids.extend(s["service_uuids"])
    legacy = s["legacy"]
    for u, dat in s["service_data"]:
        e = msg.service_data.add()
        e.uuid = u
        if legacy:
            e.legacy_data.extend(bytes.fromhex(dat))
        else:
            e.data = bytes.fromhex(dat)
    for u, dat in s["manufacturer_data"]:
        e = msg.manufacturer_data.add()
        e.uuid = u
        if legacy:
            e.legacy_data.extend(bytes.fromhex(dat))
        else:
            e.data = bytes.fromhex(dat)
    msg = pb.BluetoothLEAdvertisementResponse.FromString(msg.SerializeToString())

    def conv(u):
        return f"0000{u[2:].lower()}-0000-1000-8000-00805f9b34fb" if len(u) < 8 else u.lower()

    try:
        adv = M.BluetoothLEAdvertisement.from_pb(msg)
    except Exception as e:  # noqa: BLE001
        res.violations.append(V(f"c14:convert:raised:BluetoothLEAdvertisement:{type(e).__name__}", repr(e)))
        return res
    exp = {
        "address": s["address"], "rssi": s["rssi"], "address_type": s["address_type"],
        "name": bytes.fromhex(s["name"]).decode("utf-8", errors="replace"),
        "service_uuids": [conv(u) for u in s["service_uuids"]],
        "service_data": {conv(u): bytes.fromhex(d) for u, d in s["service_data"]},
        "manufacturer_data": {int(u, 16): bytes.fromhex(d) for u, d in s["manufacturer_data"]},
    }
    for k, v in exp.items():
        g = getattr(adv, k)
        if g != v:
            res.violations.append(V(f"c14:convert:BluetoothLEAdvertisement.{k}", f"got {g!r} expected {v!r}"))
    res.nontrivial = True
    res.classes = ["adv"] + (["adv_legacy"] if legacy else [])
    return res


# ------------------------------------------------------------------ floats
def float_violations(bits_iter) -> tuple[int, int, Violation | None]:
    from aioesphomeapi.util import fix_float_single_double_conversion as fix

    n = nt = 0
    unpack = struct.Struct("<f").unpack
    pack = struct.Struct("<I").pack
    for b in bits_iter:
        v = unpack(pack(b))[0]
        n += 1
        try:
            got = fix(v)
        except Exception as e:  # noqa: BLE001
            return n, nt, V(f"c14:float:raised:{type(e).__name__}", f"bits {b:#010x} value {v!r}: {e!r}")
        if v != v:
            if got == got:
                return n, nt, V("c14:float:nan-changed", f"bits {b:#010x} -> {got!r}")
            continue
        if v == 0 or v in (math.inf, -math.inf):
            if not feq(got, v):
                return n, nt, V("c14:float:special-changed", f"bits {b:#010x} value {v!r} -> {got!r}")
            continue
        nt += 1
        exp = float("%.6e" % v)
        if got != exp:
            return n, nt, V("c14:float:not-7-significant-digits", f"bits {b:#010x} value {v!r}: got {got!r}, 7 significant digits give {exp!r}")
    return n, nt, None


_FLOAT_COUNT = {"float_patterns": 0, "float_patterns_nontrivial": 0}


def run_floats(case: dict) -> CaseResult:
    res = CaseResult()
    if case["kind"] == "float_range":
        it = range(case["start"], min(case["start"] + case["count"] * case["step"], 2**32), case["step"])
    else:
        it = case["bits"]
    n, nt, v = float_violations(it)
    _FLOAT_COUNT["float_patterns"] += n
    _FLOAT_COUNT["float_patterns_nontrivial"] += nt
    if v is not None:
        res.violations.append(v)
    if case["kind"] == "floats":
        # the same values through a model (NumberStateResponse.state is a designated field)
        T = tables()
        for b in list(case["bits"])[:16]:
            x = pbgen.f32_from_bits(b)
            st_ = T["M"].NumberState.from_pb(T["pb"].NumberStateResponse(key=1, state=x))
            if not feq(st_.state, round7(x)):
                res.violations.append(V("c14:convert:NumberState.state:float-rounding", f"bits {b:#010x}: {x!r} -> {st_.state!r}"))
                break
    res.nontrivial = nt > 0
    res.classes = ["floats"]
    res.info = {"patterns": n}
    return res


def shard_finish(stats, tier):
    stats.extra.update(_FLOAT_COUNT)


# ------------------------------------------------------------------ history independence
def battery() -> list[dict]:
    """Fixed conversion battery used by the 'order' cases (every enum field x defined/undefined number, designated floats)."""
    out = [c for c in enumerated("quick") if c["kind"] == "convert"]
    T = tables()
    for m in sorted(T["pairs"]):
        d = getattr(T["pb"], m).DESCRIPTOR
        if m in TOP_LEVEL_SKIP:
            continue
        spec = {}
        for fd in d.fields:
            if fd.type == FD.TYPE_FLOAT and not fd.is_repeated:
                spec[fd.name] = {"f32": pbgen.f32_bits(0.1)}
            elif fd.type == FD.TYPE_STRING and fd.is_repeated:
                spec[fd.name] = ["a", "b"]
        if spec:
            out.append({"kind": "convert", "msg": m, "spec": spec})
    return out


def order_main() -> None:
    """Runs in a FRESH interpreter: instantiate the named model classes first, then run the battery."""
    import json
    import sys

    from vf import runner

    runner.assert_code_under_test()
    req = json.load(sys.stdin)
    T = tables()
    M = T["M"]
    for name in req["first"]:
        cls = getattr(M, name)
        try:
            cls()
        except Exception:  # noqa: BLE001 – some models need arguments / a 2-element uuid; only the side effect matters
            pass
        for msg_name, mc in T["pairs"].items():
            if mc is cls:
                try:
                    cls.from_pb(getattr(T["pb"], msg_name)())
                except Exception:  # noqa: BLE001 – judged by the battery below
                    pass
    found = None
    n = 0
    for case in battery():
        r = run_convert(case)
        n += 1
        if r.violations:
            found = {"signature": r.violations[0].signature, "detail": r.violations[0].detail, "case": case}
            break
    json.dump({"n": n, "violation": found}, sys.stdout)


def run_order(case: dict) -> CaseResult:
    import json
    import subprocess
    import sys

    from vf import runner

    res = CaseResult()
    env = dict(os.environ)
    env["PYTHONPATH"] = os.pathsep.join([runner.ROOT, os.path.join(runner.ROOT, ".deps")] + ([env["PYTHONPATH"]] if env.get("PYTHONPATH") else []))
    p = subprocess.run([sys.executable, "-c", "from vf.props import c14; c14.order_main()"], input=json.dumps({"first": case["first"]}),
                       capture_output=True, text=True, env=env, cwd=runner.ROOT, timeout=600)
    if p.returncode != 0:
        raise HarnessError(f"C14 order subprocess failed: {p.stderr[-600:]}")
    out = json.loads(p.stdout[p.stdout.index("{"):])
    if out["violation"]:
        v = out["violation"]
        res.violations.append(V("c14:history-dependent:" + v["signature"].split(":", 1)[1], f"after instantiating {case['first']} first in a fresh process: {v['detail']} (case {v['case']})"))
    res.nontrivial = True
    res.classes = ["order"]
    res.info = {"first": case["first"], "battery": out["n"]}
    return res


def run_camera(case: dict) -> CaseResult:
    """CameraImageResponse is the one wire message converted by reassembly instead of from_pb: the value handed to
    the application must still preserve the field values -- key, and data = the concatenation of that key's chunks.
    The session machinery and the reference reassembly are C17's (vf.props.c17); here the conversion result is judged."""
    from vf.props import c17

    r = c17.run_case({"noise": bool(case.get("noise")), "steps": case["steps"]})
    out = CaseResult(nontrivial=True, classes=["camera_conversion"] + [c for c in r.classes if c.startswith("camera")], info=r.info)
    for v in r.violations:
        out.violations.append(Violation(ID, "c14:camera:" + v.signature.split(":", 1)[-1], v.detail))
    return out


def run_case(case: dict) -> CaseResult:
    k = case["kind"]
    if k == "order":
        return run_order(case)
    if k == "schema":
        if case["what"] == "enum":
            return CaseResult(violations=check_enum(case["name"]), nontrivial=True, classes=["schema_enum"], info={"enum": case["name"], "wire": sorted(tables()["enum_pair"].get(case["name"], ()))})
        return CaseResult(violations=check_class(case["msg"]), nontrivial=True, classes=["schema_class"], info={"msg": case["msg"], "model": tables()["pairs"][case["msg"]].__name__})
    if k == "convert":
        return run_convert(case)
    if k == "adv":
        return run_adv(case)
    if k == "camera":
        return run_camera(case)
    return run_floats(case)


# ------------------------------------------------------------------ generators
U64 = st.one_of(st.sampled_from([0, 1, 2**64 - 1, 0x0000180F00001000, 0x800000805F9B34FB]), st.integers(0, 2**64 - 1))
UUID2 = st.lists(U64, min_size=2, max_size=2)


def _map_entries():
    return st.lists(st.fixed_dictionaries({"key": pbgen.TEXT, "value": pbgen.TEXT}), max_size=4, unique_by=lambda e: e["key"])


OVERRIDES = {
    "BluetoothGATTService.uuid": UUID2, "BluetoothGATTCharacteristic.uuid": UUID2, "BluetoothGATTDescriptor.uuid": UUID2,
    "HomeassistantServiceResponse.data": _map_entries(), "HomeassistantServiceResponse.data_template": _map_entries(),
    "HomeassistantServiceResponse.variables": _map_entries(),
}
TOP_LEVEL_SKIP = {"BluetoothGATTService", "BluetoothGATTCharacteristic", "BluetoothGATTDescriptor"}  # need their uuid: only generated with it


@st.composite
def _convert(draw, tier):
    T = tables()
    name = draw(st.sampled_from(sorted(T["pairs"])))
    spec = draw(pbgen.message_strategy(getattr(T["pb"], name), OVERRIDES))
    _fix_uuid(getattr(T["pb"], name).DESCRIPTOR, spec, draw)
    return {"kind": "convert", "msg": name, "spec": spec}


def _fix_uuid(desc, spec, draw):
    """GATT messages always carry their 2-element uuid (the converter indexes it)."""
    for fd in desc.fields:
        if fd.name == "uuid" and fd.is_repeated and fd.type == FD.TYPE_UINT64 and "uuid" not in spec:
            spec["uuid"] = draw(UUID2)
        if fd.type == FD.TYPE_MESSAGE and fd.name in spec:
            items = spec[fd.name] if fd.is_repeated else [spec[fd.name]]
            for it in items:
                _fix_uuid(fd.message_type, it, draw)


HEXU = st.one_of(st.sampled_from(["0x180F", "0x180f", "0xFE9F", "0x2A19"]), st.integers(0, 0xFFFF).map(lambda x: "0x%04X" % x),
                 st.uuids().map(str), st.uuids().map(lambda u: str(u).upper()))


@st.composite
def _adv(draw, tier):
    legacy = draw(st.integers(0, 3)) == 0
    # payloads may be empty: a manufacturer-specific element consisting of the company id only is legal BLE
    datas = st.one_of(st.binary(min_size=1, max_size=8), st.binary(min_size=0, max_size=2)).map(bytes.hex)
    sd = draw(st.lists(st.tuples(HEXU, datas), max_size=3, unique_by=lambda t: t[0].lower()))
    md = draw(st.lists(st.tuples(st.integers(0, 0xFFFF).map(lambda x: "0x%04X" % x), datas), max_size=3, unique_by=lambda t: t[0]))
    return {"kind": "adv", "spec": {
        "address": draw(st.integers(0, 2**48 - 1)), "rssi": draw(st.integers(-127, 20)), "address_type": draw(st.integers(0, 3)),
        "name": draw(st.one_of(st.text(max_size=8).map(lambda s: s.encode().hex()), st.binary(max_size=6).map(bytes.hex))),
        "service_uuids": draw(st.lists(HEXU, max_size=3)), "service_data": [list(x) for x in sd], "manufacturer_data": [list(x) for x in md], "legacy": legacy}}


def _float_bits():
    p10 = st.builds(lambda e, d, s: (pbgen.f32_bits(10.0**e) + d) | (s << 31), st.integers(-44, 38), st.integers(-40, 40), st.integers(0, 1))
    strat = st.builds(lambda e, m, s: (s << 31) | (e << 23) | m, st.integers(0, 255), st.integers(0, 2**23 - 1), st.integers(0, 1))
    return st.one_of(pbgen.f32_bits_strategy(), p10.map(lambda b: b & 0xFFFFFFFF), strat, strat)


def model_class_names() -> list[str]:
    T = tables()
    M = T["M"]
    return sorted(n for n, c in vars(M).items() if isinstance(c, type) and dataclasses.is_dataclass(c) and issubclass(c, M.APIModelBase))


def strategy(tier):
    conv = st.one_of(_convert(tier), _convert(tier), _convert(tier), _adv(tier),
                     st.lists(_float_bits(), min_size=8, max_size=64).map(lambda b: {"kind": "floats", "bits": b}))
    # rarely (each costs a fresh interpreter): conversions must not depend on which model classes were used first
    order = st.lists(st.sampled_from(model_class_names()), min_size=1, max_size=6, unique=True).map(lambda f: {"kind": "order", "first": f})
    from vf.props import c17

    @st.composite
    def mix(draw):
        r = draw(st.integers(0, 299))
        if r == 137:  # (mid-range value: Hypothesis over-samples the bounds)
            return draw(order)
        if 140 <= r < 150:
            c = draw(c17._camera_case(tier))
            return {"kind": "camera", "noise": c["noise"], "steps": c["steps"]}
        return draw(conv)

    return mix()


def enumerated(tier):
    T = tables()
    cam = lambda k, d, done: {"t": "camera", "key": k, "data": d, "done": done}  # noqa: E731
    for inter in ([cam(1, "aa", False), cam(2, "b1", False), cam(1, "bb", False), cam(2, "b2", False), cam(1, "cc", True), cam(2, "b3", True)],
                  [cam(1, "aa", False), cam(2, "b1b2", True), cam(1, "bb", True)],
                  [cam(3, "", False), cam(1, "a1", False), cam(3, "c1", True), cam(2, "", True), cam(1, "a2", True)]):
        for n in (1, 2, 6):
            yield {"kind": "camera", "noise": n == 2, "steps": [{"op": "sub", "id": "s0", "kind": "states"}] + [{"op": "chunk", "msgs": inter[i:i + n]} for i in range(0, len(inter), n)]}
    for n in sorted(T["model_enums"]):
        yield {"kind": "schema", "what": "enum", "name": n}
    for m in sorted(T["pairs"]):
        yield {"kind": "schema", "what": "class", "msg": m}
    # every enum field of every paired top-level message x every wire number + undefined ones
    for m in sorted(T["pairs"]):
        if m in TOP_LEVEL_SKIP:
            continue
        d = getattr(T["pb"], m).DESCRIPTOR
        for fd in d.fields:
            if fd.type == FD.TYPE_ENUM:
                nums = sorted({v.number for v in fd.enum_type.values})
                for n in nums + [max(nums) + 1, 99, -1]:
                    yield {"kind": "convert", "msg": m, "spec": {fd.name: [n, n] if fd.is_repeated else n}}
        yield {"kind": "convert", "msg": m, "spec": {}}
        # every PAIR of scalar enum fields of one message x every pair of their wire numbers: a field's conversion does
        # not depend on what another field holds
        efs = [fd for fd in d.fields if fd.type == FD.TYPE_ENUM and not fd.is_repeated]
        for i, fa in enumerate(efs):
            for fb in efs[i + 1:]:
                for na in sorted({v.number for v in fa.enum_type.values}):
                    for nb in sorted({v.number for v in fb.enum_type.values}):
                        if na or nb:
                            yield {"kind": "convert", "msg": m, "spec": {fa.name: na, fb.name: nb}}
    # history independence: base classes / arbitrary classes instantiated first in a fresh interpreter
    names = model_class_names()
    orders = [["EntityState"], ["EntityInfo"], ["EntityInfo", "EntityState", "APIModelBase"], ["APIModelBase"], names[::-1][:12], names[:12], ["SensorState", "EntityState", "SensorInfo"]]
    if tier == "thorough":
        orders += [[n] for n in names]
    for o in orders:
        yield {"kind": "order", "first": [n for n in o if n in names or n == "APIModelBase"]}
    # float sweep: stratified bit patterns
    total = 2**18 if tier == "quick" else 2**28
    chunk = 2**13 if tier == "quick" else 2**20
    step = 2**32 // total
    for i in range(total // chunk):
        yield {"kind": "float_range", "start": i * chunk * step + (i % step), "step": step, "count": chunk}
    # neighbourhoods of powers of ten and the denormal range, exhaustively +-2000 patterns
    for e in range(-45, 39):
        b = pbgen.f32_bits(10.0**e) if e > -46 else 0
        lo = max(0, b - (2000 if tier == "thorough" else 200))
        yield {"kind": "float_range", "start": lo, "step": 1, "count": (4000 if tier == "thorough" else 400)}
        yield {"kind": "float_range", "start": lo | 0x80000000, "step": 1, "count": (4000 if tier == "thorough" else 400)}


def post_run(total, tier):
    T = tables()
    total.extra["model_enums_unpaired"] = sorted(set(T["model_enums"]) - set(T["enum_pair"]))
    total.extra["wire_enums_unpaired"] = sorted(set(T["wire_enums"]) - {x for s in T["enum_pair"].values() for x in s})
    total.extra["class_pairs"] = len(T["pairs"])
    return None
