"""C18 – reconnect manager: one attempt at a time, specified backoff, clean stop.

Layer S.  A real ReconnectLogic drives a real APIClient on the virtual loop against a device whose
behaviour is scripted per attempt; session endings, mDNS record deliveries (through the fake
zeroconf's listener registry, as the real library does – plus force-deliveries to an unregistered
listener) and start()/stop()/stop_callback() calls happen at generated virtual instants.  The
oracle walks the trace: global invariants (<=1 attempt, <=1 session, alternating callbacks, one
error report per failed attempt, silence after stop) and a justification rule for every attempt
start plus mandatory instants at which an attempt must start (DESIGN.md appendix B).
"""
from __future__ import annotations

import asyncio

from hypothesis import strategies as st

from vf import zcfake
from vf.runner import CaseResult, HarnessError, Violation
from vf.simloop import START, IterationCap
from vf.simnet import D, Env, make_client

ID = "C18"
LEVEL = "exploration"
RULE = (
    "histories over virtual time: per attempt a scripted outcome from {resolve error, TCP refused after d, TCP hang, "
    "garbage during handshake, wrong device name, invalid password, requires-encryption, success}; session endings "
    "(DisconnectRequest = expected, reset / silence->ping failure = unexpected) at generated instants; mDNS record events "
    "(PTR alias / A name matching the device, non-matching names and types, TXT/AAAA/SRV/NSEC records of other devices) delivered through the fake zeroconf's listener "
    "registry or forced onto the manager while it is not listening; start() / stop() / stop_callback() at generated "
    "instants incl. the instants of retry timers; user callbacks that return at once or keep running for up to 3 s; client with and without a device name. non-trivial = >=2 consecutive "
    "failures followed by a success, or an mDNS/stop event within 1/64 s of a retry instant, or a stop while an attempt "
    "is in flight."
)
ASSUMPTIONS = [
    "attempt start = creation of the client's connection object (APIClient.start_connection), observed by the harness-side connection subclass; failure instant = on_connect_error call; session = connection reaching CONNECTED",
    "one retry-timer slot: a newer back-off or cool-down supersedes a pending one, an immediate trigger (start(), unexpected disconnect, mDNS) does not; in a failure streak containing an authentication/encryption error both f+60 and f+min(round(1.8^n),60) justify an attempt and neither is mandatory",
    "when the retry timer fires while an attempt is still at the TCP stage the manager may restart it (old attempt cancelled first): justified, not mandatory; a mandatory instant coinciding (+-1 us) with another event is not asserted (order unspecified)",
    "'never while handshaking or connected' is read as: with a session established the manager is not registered as an mDNS listener (checked at on_connect); records force-delivered to it then must cause nothing",
    "mDNS records reach the manager only through listeners it registered on the (fake) zeroconf; 'while waiting' = while it is registered; force-delivered records while handshaking/connected/stopped must cause nothing",
    "stop() does not disconnect a live session (documented); on_disconnect is still reported when that session ends later",
]
BUDGET = {"quick": {"examples": 350, "shards": 8}, "thorough": {"examples": 6000, "shards": 16}}
FLOORS = {"streak_then_success": 0.1, "mdns_while_waiting": 0.1, "stop_in_flight": 0.05}

AUTH = {"InvalidAuthAPIError", "RequiresEncryptionAPIError", "InvalidEncryptionKeyAPIError"}
EPS = 1e-6


def V(sig, detail=""):
    return Violation(ID, sig, detail)


def backoff(n: int) -> int:
    return int(round(min(1.8 ** min(n, 10), 60.0)))


class Rec:
    def __init__(self, type_, alias=None, name=None):
        self.type = type_
        self.alias = alias
        self.name = name


class Upd:
    def __init__(self, new):
        self.new = new
        self.old = None


def run_case(case: dict) -> CaseResult:
    from aioesphomeapi import api_pb2 as pb
    from aioesphomeapi.reconnect_logic import ReconnectLogic
    from zeroconf.const import _TYPE_A, _TYPE_PTR

    res = CaseResult()
    env = Env()
    world = zcfake.ZcWorld(env)
    dev = env.dev
    K = float(case.get("K", 4.0))
    named = bool(case.get("named", True))
    addr_kind = case.get("addr", "ip")
    cli = make_client(env, address={"ip": "10.0.0.1", "name": "dev.example.com", "mdns": "dev.local", "mdns_dot": "dev.local.", "bare": "dev"}[addr_kind], keepalive=K, expected_name="dev", password="pw")
    plan = case["plan"]
    viol = res.violations
    classes: set[str] = set()

    latest_attempt = [-1]

    def on_new_conn(idx: int):
        latest_attempt[0] = idx
        out = plan[min(idx, len(plan) - 1)]
        kind = out[0]
        dev.auto = {1, 3, 5, 7, 9, 11}
        dev.name = "dev"
        dev.invalid_password = False
        dev.on_frame = None
        dev.hello_trailer_msgs = []
        env.dns["dev.example.com"] = ("ok", ["10.0.0.9"], D)
        env.dns["dev.local"] = env.dns["dev.local."] = env.dns["dev"] = ("error", D)
        # (addr "mdns": every attempt looks the name up through the client's zeroconf manager -- the one the reconnect
        # manager listens on when the library had to create the instance itself)
        world.mdns["dev"] = {"outcome": "ok", "v4": ["10.0.0.9"], "delay": D}
        env.tcp_script = [("ok", 2 * D)]
        if kind == "resolve_error":
            if addr_kind == "ip":
                env.tcp_script = [("oserror", D)]
            elif addr_kind in ("mdns", "mdns_dot", "bare"):
                world.mdns["dev"] = {"outcome": "none", "delay": D}
            else:
                env.dns["dev.example.com"] = ("error", D)
        elif kind == "refuse":
            env.tcp_script = [("refuse", int(out[1]) * D)]
        elif kind == "tcp_hang":
            env.tcp_script = [("hang",)]
        elif kind == "slow_ok":
            env.tcp_script = [("ok", int(out[1]) * D)]
        elif kind == "garbage":
            def onf(s, t, p):
                if t == 1:
                    env.loop.sim_after(D, s.transport.feed, b"\x07\x07\x07")
                    return True
                return False
            dev.on_frame = onf
        elif kind == "badname":
            dev.name = "other"
        elif kind == "badauth":
            dev.invalid_password = True
        elif kind == "reqenc":
            def onf(s, t, p):
                if t == 1:
                    env.loop.sim_after(D, s.transport.feed, b"\x01\x00\x00")
                    return True
                return False
            dev.on_frame = onf
        elif kind == "silent":
            dev.auto = set()
        elif kind == "goodbye":
            # the device accepts the login and says goodbye in the same breath (about to reboot): DisconnectRequest in
            # the chunk of the hello/login answers, the socket closed by the device a little later.  No session was
            # established: a failed attempt
            from aioesphomeapi import api_pb2 as pb

            dev.hello_trailer_msgs = [pb.DisconnectRequest()]

            def close_later(my=idx):
                s_ = dev.session
                if s_ is not None and latest_attempt[0] == my and len(dev.sessions) - 1 == my_sess[0] and not s_.transport.closing:
                    # (whoever still holds this connection was told, with the login answer, that the device is leaving)
                    env.log("end_injected", how="discreq")
                    s_.transport.feed_eof()

            my_sess = [len(dev.sessions)]
            env.loop.sim_after(20 * D, close_later)
        env.log("attempt", idx=idx, plan=kind)

    # hook: called by Env.new_conn_id through the trace (conn_new is logged first)
    orig_new = env.new_conn_id

    def new_conn_id(conn):
        cid = orig_new(conn)
        on_new_conn(cid)
        return cid

    env.new_conn_id = new_conn_id  # type: ignore[method-assign]

    cb_delay = case.get("cb_delay") or {}

    async def on_connect():
        env.log("rl_on_connect")
        if case.get("name_late") and not rl.name:
            # the application learns the device's name from the first session and tells the manager (public attribute)
            rl.name = "dev"
        if cb_delay.get("connect"):
            await asyncio.sleep(cb_delay["connect"] / 64)
        env.log("rl_on_connect_ret")

    async def on_disconnect(expected):
        env.log("rl_on_disconnect", expected=expected)
        if cb_delay.get("disconnect"):
            await asyncio.sleep(cb_delay["disconnect"] / 64)
        env.log("rl_on_disconnect_ret", expected=expected)  # the manager schedules its next attempt when the callback has returned

    async def on_error(e):
        if cb_delay.get("error"):
            await asyncio.sleep(cb_delay["error"] / 64)
        env.log("rl_on_error", exc=type(e).__name__)

    supplied_zc = world.supplied_async() if case.get("supplied_zc") else None
    rl = ReconnectLogic(client=cli, on_connect=on_connect, on_disconnect=on_disconnect, name="dev" if named else None, on_connect_error=on_error,
                        **({"zeroconf_instance": supplied_zc} if supplied_zc is not None else {}))
    ptr_alias, a_name = "dev._esphomelib._tcp.local.", "dev.local."
    if case.get("cached"):
        # the zeroconf cache already holds the device's (unexpired) records, as it does in any running installation
        world.cache = [Upd(Rec(_TYPE_PTR, alias=ptr_alias, name="_esphomelib._tcp.local.")), Upd(Rec(_TYPE_A, name=a_name))]
        classes.add("records_already_cached")

    def live_session():
        c = cli._connection
        return c is not None and c.is_connected

    def do_event(ev: dict, i: int):
        do = ev["do"]
        if do == "start":
            env.log("rl_start_call")

            async def start_():
                await rl.start()
                env.log("rl_start")  # start() returned: an attempt it scheduled begins at this very instant
            env.spawn(f"start{i}", start_())
        elif do == "stop":
            env.log("rl_stop_call")

            async def stop_():
                await rl.stop()
                env.log("rl_stop_returned", listeners=sum(len(z.listeners) for z in world.zcs))
            env.spawn(f"stop{i}", stop_())
        elif do == "stop_cb":
            env.log("rl_stop_call")
            rl.stop_callback()
            t = rl._stop_task  # public effect only: wait for it to finish to mark 'returned'

            def done(_f):
                env.log("rl_stop_returned", listeners=sum(len(z.listeners) for z in world.zcs))
            if t is not None:
                t.add_done_callback(done)
            else:
                env.log("rl_stop_returned", listeners=sum(len(z.listeners) for z in world.zcs))
        elif do == "mdns":
            kind = ev.get("rec", "ptr")
            rec = {"ptr": Rec(_TYPE_PTR, alias=ptr_alias, name="_esphomelib._tcp.local."), "a": Rec(_TYPE_A, name=a_name),
                   "other_ptr": Rec(_TYPE_PTR, alias="other._esphomelib._tcp.local.", name="_esphomelib._tcp.local."),
                   "other_a": Rec(_TYPE_A, name="other.local."), "ptr_wrong_type": Rec(_TYPE_A, alias=ptr_alias, name="x.local."),
                   "a_wrong_type": Rec(_TYPE_PTR, alias="x", name=a_name),
                   # records of other types announced by OTHER devices (TXT 16, AAAA 28, SRV 33, NSEC 47)
                   "other_txt": Rec(16, name="other._esphomelib._tcp.local."), "other_aaaa": Rec(28, name="other.local."),
                   "other_srv": Rec(33, name="other._esphomelib._tcp.local."), "other_nsec": Rec(47, name="other.local.")}[kind]
            matching = kind in ("ptr", "a")
            listeners = [(z, l) for z in world.zcs for l in list(z.listeners) if not z.closed]  # a closed instance hears nothing
            if listeners:
                env.log("mdns_deliver", matching=matching, registered=True, rec=kind)
                for z, l in listeners:
                    l.async_update_records(z, 0.0, [Upd(Rec(_TYPE_A, name="noise.local.")), Upd(rec)])
            elif ev.get("force"):
                env.log("mdns_deliver", matching=matching, registered=False, rec=kind)
                rl.async_update_records(None, 0.0, [Upd(rec)])
            else:
                env.log("mdns_nobody_listening")
        elif do == "end":
            s = dev.session
            if s is None or s.transport.closing or not live_session():
                env.log("end_skipped")
                return
            how = ev["how"]
            env.log("end_injected", how=how)
            if how == "reset":
                s.transport.reset()
            elif how == "discreq":
                s.transport.feed(s.encode(pb.DisconnectRequest()))
            elif how == "silence":
                dev.auto = set()
            elif how in ("force", "force_wf", "local"):
                # the application itself ends the session through the client (the manager keeps running): an expected end
                if how == "force_wf":
                    s.transport.write_fail = ("raise", ConnectionResetError(104, "Connection reset by peer"))
                env.spawn(f"appdisc{i}", cli.disconnect(force=(how != "local")))

    horizon = float(case.get("horizon", 300))
    for i, ev in enumerate(case["events"]):
        if ev["t"] / 64 < horizon - 1.0:  # (the history ends with the harness's own final stop(): nothing is scripted after it)
            env.loop.sim_at(ev["t"] / 64, do_event, ev, i)

    async def finale():
        env.log("finale")
        await rl.stop()
        env.log("rl_stop_returned", listeners=sum(len(z.listeners) for z in world.zcs))
        await cli.disconnect(force=True)

    env.loop.sim_at(horizon, lambda: (env.log("rl_stop_call"), env.spawn("finale", finale())))
    env.loop.horizon = START + horizon + 200
    try:
        env.run()
    except IterationCap as e:
        env.close()
        world.close()
        raise HarnessError(f"C18: {e}") from e
    if env.results.get("finale", (None,))[0] != "ok":
        viol.append(V("c18:stop-did-not-return", f"final stop(): {env.results.get('finale')}"))
    judge(env, world, case, viol, classes)
    res.classes = sorted(classes)
    res.nontrivial = bool(classes & {"streak_then_success", "event_near_retry", "stop_in_flight", "mdns_while_waiting"})
    res.info = {"attempts": len(env.conns), "sessions": sum(1 for e in env.trace if e["kind"] == "rl_on_connect")}
    # leftovers: nothing of the manager may be armed after the final stop
    for h in env.loop.armed_timers():
        q = getattr(h._callback, "__qualname__", "")
        if "ReconnectLogic" in q:
            viol.append(V("c18:timer-left-after-stop", q))
    for z in world.zcs:
        if z.listeners:
            viol.append(V("c18:listener-left-after-stop", f"zeroconf #{z.idx} still has {len(z.listeners)} listener(s)"))
        if not z.supplied and z.closed < 1:
            viol.append(V("c18:created-zeroconf-not-closed", f"zeroconf #{z.idx} was created by the library and never closed"))
    env.close()
    world.close()
    return res


def judge(env, world, case, viol, classes) -> None:
    tr = env.trace
    # ---------------- per-connection state logs
    conn_state: dict[int, list] = {}
    for e in tr:
        if e["kind"] == "state":
            conn_state.setdefault(e["conn"], []).append((e["seq"], e["t"], e["value"].name))
    supplied_ids = {e["zc"] for e in tr if e["kind"] == "zc_new" and e.get("supplied")}
    # ---------------- walk
    stopped = True          # manager starts stopped
    stop_returned_seq = None
    phase = "idle"          # idle | attempting | connected
    cur_attempt = None
    n = 0
    n_lo = 0
    auth_streak = False
    slot: list = []         # candidate instants of the single retry timer (more than one only in an auth streak)
    slot_mandatory = False
    stop_pending = False
    expired_slot: list = []  # the last slot that passed while an attempt was in flight (its cancel report may trail by the error callback's duration)
    slot_set_seq = -1
    justified_now: list = []   # (t, why, mandatory)
    cb_seq: list = []
    attempts: list = []     # dict(idx, t, seq, outcome)
    streak = 0
    listening = False
    listen_zc: set = set()
    in_on_connect = False
    truth_of: dict = {}
    last_truth = None
    disc_cb = None             # (call time, stale slot instants) of the on_disconnect callback currently running / last run
    record_in_error_cb = False  # a matching record reached the manager while the user's on_connect_error callback was still running
    must_listen_since = None   # set at a failure report: from then on (later instants) a named, started, idle manager must be registered
    # (without an explicit name the manager derives it from a bare / .local client address, trailing dot or not)
    named = bool(case.get("named", True)) or case.get("addr") in ("mdns", "mdns_dot", "bare")
    pending_mandatory: list = []   # (t, why, seq)
    event_times = sorted(e["t"] for e in tr if e["kind"] in ("rl_on_error", "rl_on_disconnect_ret", "rl_on_connect", "rl_start", "rl_stop_call", "rl_stop_returned", "mdns_deliver", "conn_new", "end_injected"))

    def coincides(t, own_count=1):
        return sum(1 for x in event_times if abs(x - t) <= EPS) > own_count

    def check_due(now_t, now_seq):
        """Mandatory instants that have passed without an attempt."""
        nonlocal pending_mandatory
        keep = []
        for (t, why, sq) in pending_mandatory:
            if now_t > t + EPS and why.startswith("mdns") and record_in_error_cb:
                viol.append(V("c18:record-ignored-while-listening:after-a-record-during-the-error-callback",
                              f"a matching record delivered at t={t:.6f} while the manager was registered and waiting started no attempt: an earlier record had arrived while on_connect_error was still running, which leaves records ignored until the retry timer fires"))
            elif now_t > t + EPS:
                viol.append(V(f"c18:attempt-missing:{why.split(':')[0]}", f"an attempt was due at t={t:.6f} ({why}) while the manager was idle and started, but none began"))
            else:
                keep.append((t, why, sq))
        pending_mandatory = keep

    last_t = 0.0
    for e in tr:
        k = e["kind"]
        t = e["t"]
        if k in ("rl_start", "rl_stop_call", "rl_stop_returned", "conn_new", "rl_on_error", "rl_on_connect", "rl_on_disconnect", "rl_on_disconnect_ret", "mdns_deliver", "zc_listen", "zc_unlisten", "zc_close", "finale"):
            # retry slot expiring unused
            if slot and min(slot) < t - EPS and phase == "idle" and not stopped and slot_mandatory:
                st_ = min(slot)
                if not coincides(st_, 0):
                    viol.append(V("c18:attempt-missing:retry-timer", f"retry was due at t={st_:.6f} (n={n}) while idle and started, none began by t={t:.6f}"))
                slot = []
            elif slot and max(slot) < t - EPS:
                expired_slot = list(slot)
                slot = []
            check_due(t, e["seq"])
            if must_listen_since is not None and t > must_listen_since + EPS and phase == "idle" and not stopped and named:
                if not listening:
                    viol.append(V("c18:not-listening-while-waiting", f"after the failure reported at t={must_listen_since:.6f} the manager waits for its retry timer but has no mDNS listener registered (seen at t={t:.6f}): a record for the device could not trigger a reconnect"))
                must_listen_since = None
        if k == "zc_listen":
            if case.get("supplied_zc") and e["zc"] not in supplied_ids:
                # the application supplied the zeroconf instance its records arrive on: a listener registered elsewhere
                # hears none of them
                classes.add("listening_on_a_private_instance_although_one_was_supplied")
            else:
                listening = True
            listen_zc.add(e["zc"])
        elif k == "zc_unlisten":
            listening = False
        elif k == "zc_close" and not e.get("supplied"):
            listening = False if e["zc"] in listen_zc else listening
        elif k == "rl_start":
            if phase == "connected" and stopped:
                # stop() leaves the session up; start() while it is still alive is outside the statement
                classes.add("restart_with_live_session")
                return
            was_stopped = stopped
            stopped = False
            stop_returned_seq = None
            if stop_pending:
                # start() returned while an earlier stop() had not: which of the two the manager obeys in that instant
                # is not specified -- an attempt there is allowed, none is required
                classes.add("start_overlapping_stop")
                justified_now.append((t, "start() overlapping a stop()", False))
                # (stop() is past its own work -- only its clean-up is still running: the attempt it cancelled is over
                # and start() begins a fresh failure count)
                if phase == "attempting":
                    phase = "idle"
                    if cur_attempt is not None and cur_attempt.get("outcome") is None:
                        cur_attempt["outcome"] = "stopped"
                if phase == "idle":
                    n = n_lo = 0
                    auth_streak = False
            elif phase == "idle":
                n = n_lo = 0
                auth_streak = False
                justified_now.append((t, "start()", was_stopped))
                # start() has returned, every earlier stop() had returned before it: the manager is started and idle.
                # Only something ELSE happening later in this very instant (another stop, a record, ...) leaves the
                # outcome open; what came before it in the instant is history
                later = any(x["seq"] > e["seq"] and abs(x["t"] - t) <= EPS and x["kind"] in ("rl_stop_call", "rl_stop_returned", "rl_start_call", "mdns_deliver", "end_injected", "rl_on_error", "rl_on_disconnect_ret") for x in tr)
                if was_stopped and not later:
                    pending_mandatory.append((t, "start():start() returned while idle", e["seq"]))
        elif k == "rl_stop_call":
            must_listen_since = None
            if phase == "attempting":
                classes.add("stop_in_flight")
            stopped = True
            stop_pending = True
            slot = []
            expired_slot = []
            pending_mandatory = []
            justified_now = []
        elif k == "rl_stop_returned":
            stop_pending = False
            if not stopped:
                # (a start() returned while this stop() was still in progress: see there)
                last_t = t
                continue
            stop_returned_seq = e["seq"]
            # whatever the attempt cancelled by this stop() armed on its way out is gone once stop() has returned
            if stopped:
                slot = []
                pending_mandatory = []
            if phase == "attempting":
                # stop() returned while the attempt had produced no verdict: it was cancelled by the stop
                phase = "idle"
                if cur_attempt is not None:
                    cur_attempt["outcome"] = "stopped"
            if e.get("listeners") and stopped:
                viol.append(V("c18:listening-after-stop", f"stop() returned at t={t:.6f} with {e['listeners']} mDNS listener(s) still registered"))
        elif k == "conn_new":
            idx = e["conn"]
            # --- invariants: one attempt at a time, no attempt during a session, none after stop returned
            for cid, log in conn_state.items():
                if cid < idx:
                    last = [s for s in log if s[0] < e["seq"]]
                    if last and last[-1][2] != "CLOSED":
                        viol.append(V("c18:overlapping-attempts" if last[-1][2] != "CONNECTED" else "c18:attempt-while-session-alive", f"attempt #{idx} starts at t={t:.6f} while connection #{cid} is {last[-1][2]}"))
            if stop_returned_seq is not None and stopped:
                viol.append(V("c18:attempt-after-stop", f"attempt #{idx} starts at t={t:.6f} after stop() had returned"))
            elif stopped:
                # between the stop() call and its return: the statement only constrains 'once stop() has returned'
                pass
            else:
                # --- justification
                why = None
                for j, (jt, jw, _) in enumerate(justified_now):
                    if abs(jt - t) <= EPS:
                        why = jw
                        justified_now.pop(j)
                        break
                if why is None and any(abs(x - t) <= EPS for x in slot):
                    why = "retry-timer"
                    slot = []
                if why is None and disc_cb is not None and disc_cb["expected"] and disc_cb["t1"] is not None and abs(disc_cb["t1"] - t) <= EPS \
                        and any(disc_cb["t0"] - EPS <= x <= disc_cb["t1"] + EPS for x in disc_cb["stale"]):
                    viol.append(V("c18:cooldown-bypassed:stale-retry-timer-fired-during-on_disconnect-callback",
                                  f"attempt #{idx} starts at t={t:.6f}, the instant the on_disconnect(expected) callback returned, instead of 5 s later: a retry timer armed before the session (due {disc_cb['stale']}) fired while the callback was running"))
                    why = "known-corner"
                if why is None:
                    viol.append(V("c18:attempt-not-justified", f"attempt #{idx} starts at t={t:.6f}: no start(), unexpected disconnect or matching mDNS record at that instant, and the retry timer is due at {slot} (n={n}, auth_streak={auth_streak})"))
                pending_mandatory = [(pt, pw, ps) for (pt, pw, ps) in pending_mandatory if abs(pt - t) > EPS]
            phase = "attempting"
            record_in_error_cb = False
            must_listen_since = None
            cur_attempt = {"idx": idx, "t": t, "seq": e["seq"], "errors": 0}
            attempts.append(cur_attempt)
        elif k == "rl_on_error":
            if cur_attempt is None or cur_attempt.get("outcome") not in (None, "stopped"):
                viol.append(V("c18:error-report-without-attempt", f"on_connect_error({e['exc']}) at t={t:.6f} but no attempt is awaiting a verdict"))
            else:
                # (a report may trail a stop() that overtook the user's slow error callback)
                cur_attempt["errors"] += 1
                cur_attempt["outcome"] = e["exc"]
            phase = "idle"
            if e["exc"] == "APIConnectionCancelledError":
                # the manager cancelled its own attempt (retry timer fired during the TCP stage, or stop()):
                # a restart at this very instant is justified; whether the cancelled attempt counts as a
                # 'failed attempt' for the back-off is not specified -> both counts are accepted from here on
                classes.add("restart_at_tcp_stage")
                err_delay = ((case.get("cb_delay") or {}).get("error") or 0) / 64
                if not stopped and (any(x - EPS <= t <= x + err_delay + EPS for x in slot + expired_slot)
                                    or any(jt - EPS <= t <= jt + err_delay + EPS for (jt, _, _) in justified_now)):
                    # only a retry timer that is actually due explains it: a timer left over from before the last
                    # stop() is not a reason to cut a healthy attempt short
                    justified_now.append((t, "retry timer fired while the attempt was still connecting (restart)", False))
                n += 1
            else:
                streak += 1
                n += 1
                n_lo += 1
            if e["exc"] in AUTH:
                auth_streak = True
            if not stopped:
                must_listen_since = t
                cands = sorted({t + backoff(k) for k in range(max(1, n_lo), n + 1)})
                if auth_streak:
                    slot = sorted(set(cands + [t + 60]))
                    slot_mandatory = False
                else:
                    slot = cands
                    slot_mandatory = len(cands) == 1
                slot_set_seq = e["seq"]
                classes.add(f"backoff_n{min(n, 8)}")
        elif k == "rl_on_connect":
            if case.get("name_late"):
                named = True
                classes.add("name_set_after_first_session")
            in_on_connect = True
            cb_seq.append("c")
            if streak >= 2:
                classes.add("streak_then_success")
            streak = 0
            n = n_lo = 0
            auth_streak = False
            phase = "connected"
            if listening and named:
                # mDNS records matter only while the manager waits to retry: with a session established it must not be
                # registered any more (a listener left over would also hear the device's announcement during the
                # cool-down after an expected disconnect and cut the cool-down short)
                viol.append(V("c18:listening-while-connected", f"session established at t={t:.6f} with the manager's mDNS listener still registered"))
            if cur_attempt is not None:
                cur_attempt["outcome"] = "ok"
            slot = [] if not slot else slot  # a pending cool-down/back-off may still fire; it must then cause nothing
        elif k == "rl_on_connect_ret":
            in_on_connect = False
        elif k == "rl_on_disconnect":
            if in_on_connect:
                viol.append(V("c18:callbacks-overlap", f"on_disconnect invoked at t={t:.6f} while the on_connect callback of that session had not returned yet (strictly alternating calls)"))
            cb_seq.append("d")
            phase = "in_callback"  # the manager holds its lock until the user's callback has returned
            prev_d = next((x for x in reversed(tr) if x["kind"] == "rl_on_disconnect" and x["seq"] < e["seq"]), None)
            # the first decisive ending injected into this session (a graceful one stays graceful whatever follows it)
            cause = next((x for x in tr if x["kind"] == "end_injected" and x["seq"] < e["seq"] and (prev_d is None or prev_d["seq"] < x["seq"])
                          and x["how"] in ("discreq", "force", "force_wf", "local", "reset")), None)
            truth = e["expected"]
            if cause is not None:
                truth = cause["how"] != "reset"
                if bool(e["expected"]) != truth:
                    viol.append(V(f"c18:on_disconnect-flag:{e['expected']}-for-{cause['how']}", f"session ended by '{cause['how']}' at t={cause['t']:.6f}: on_disconnect({e['expected']})"))
            truth_of[e["seq"]] = truth
            last_truth = truth
            disc_cb = {"t0": t, "stale": list(slot), "expected": truth, "t1": None}
        elif k == "rl_on_disconnect_ret":
            if phase == "in_callback":
                phase = "idle"
            if disc_cb is not None:
                disc_cb["t1"] = t
            if not stopped and phase == "idle" and disc_cb is not None and disc_cb.get("record_during"):
                # a record pushed onto the (unregistered) manager while the user's on_disconnect callback was still
                # running: it is already "waiting", the reaction can only start once the callback has returned
                justified_now.append((t, "matching mDNS record (force-delivered) during the on_disconnect callback", False))
            if not stopped and phase == "idle":
                if last_truth if last_truth is not None else e["expected"]:
                    slot = [t + 5.0]
                    slot_mandatory = True
                    classes.add("expected_cooldown")
                else:
                    justified_now.append((t, "unexpected disconnect", True))
                    # (the injected ending that caused this very disconnect is no coinciding event)
                    own = 1 + sum(1 for e2 in tr if e2["kind"] == "end_injected" and abs(e2["t"] - t) <= EPS)
                    if not coincides(t, own):
                        pending_mandatory.append((t, "unexpected-disconnect:session ended unexpectedly", e["seq"]))
                    classes.add("unexpected_disconnect")
        elif k == "mdns_deliver":
            near = any(abs(x - t) <= 1 / 64 + EPS for x in slot)
            if near:
                classes.add("event_near_retry")
            tcp_stage = phase == "attempting" and cur_attempt is not None and not any(
                x[2] in ("SOCKET_OPENED", "HANDSHAKE_COMPLETE", "CONNECTED", "CLOSED") and x[0] < e["seq"] for x in conn_state.get(cur_attempt["idx"], []))
            if e["matching"] and e["registered"] and not stopped and phase == "idle":
                classes.add("mdns_while_waiting")
                justified_now.append((t, "matching mDNS record while waiting", True))
                if not coincides(t):
                    pending_mandatory.append((t, "mdns:matching record delivered while listening", e["seq"]))
            elif e["matching"] and not stopped and phase == "idle":
                # seen while waiting (cool-down / back-off) although the manager had no listener registered: allowed, not required
                classes.add("mdns_forced_while_waiting")
                justified_now.append((t, "matching mDNS record (force-delivered) while waiting", False))
            elif e["matching"] and not stopped and phase == "attempting" and cur_attempt is not None and any(
                    x[2] == "CLOSED" and x[0] < e["seq"] for x in conn_state.get(cur_attempt["idx"], [])):
                # the attempt has already failed, the user's on_connect_error callback is still running
                classes.add("mdns_during_error_callback")
                record_in_error_cb = True
            elif e["matching"] and not stopped and tcp_stage:
                # statement silent: the implementation restarts an attempt that is still at the TCP stage
                classes.add("mdns_during_tcp_stage")
                justified_now.append((t, "matching mDNS record while the attempt was still connecting (restart)", False))
            elif e["matching"] and not stopped and phase == "in_callback" and disc_cb is not None:
                classes.add("mdns_during_disconnect_callback")
                disc_cb["record_during"] = True
            elif e["matching"] and phase != "idle":
                classes.add("mdns_while_busy")
            elif not e["matching"]:
                classes.add("mdns_non_matching")
        last_t = t
    # ---------------- callbacks alternate, starting with connect
    s = "".join(cb_seq)
    if s and (s[0] != "c" or "cc" in s or "dd" in s):
        viol.append(V("c18:callbacks-not-alternating", f"on_connect/on_disconnect sequence {s[:40]}"))
    n_sessions = sum(1 for cid, log in conn_state.items() if any(x[2] == "CONNECTED" for x in log))
    ended = sum(1 for cid, log in conn_state.items() if any(x[2] == "CONNECTED" for x in log) and log[-1][2] == "CLOSED")
    if s.count("c") != n_sessions:
        viol.append(V("c18:on_connect-count", f"{s.count('c')} on_connect calls for {n_sessions} established sessions"))
    if s.count("d") != ended:
        viol.append(V("c18:on_disconnect-count", f"{s.count('d')} on_disconnect calls for {ended} ended sessions"))
    # ---------------- each failed attempt reported exactly once
    plan = case["plan"]
    for a in attempts:
        if a.get("outcome") == "ok":
            continue
        if a["errors"] > 1:
            viol.append(V("c18:error-reported-twice", f"attempt #{a['idx']}"))
        if a["errors"] == 0:
            # failed on its own (its connection closed without a session) and was not superseded/stopped -> must be reported
            log = conn_state.get(a["idx"], [])
            superseded = any(e["kind"] in ("rl_stop_call", "finale") and e["seq"] > a["seq"] and (not log or e["seq"] < log[-1][0] + 50) for e in tr) or \
                any(b["seq"] > a["seq"] and b["t"] <= (log[-1][1] if log else a["t"]) + EPS for b in attempts)
            if log and log[-1][2] == "CLOSED" and not superseded:
                viol.append(V("c18:failed-attempt-not-reported", f"attempt #{a['idx']} (plan {plan[min(a['idx'], len(plan) - 1)]}) ended without on_connect_error"))


# ------------------------------------------------------------------ generators
FAILS = [["resolve_error"], ["refuse", 2], ["refuse", 64], ["garbage"], ["badname"], ["badauth"], ["reqenc"], ["silent"], ["tcp_hang"], ["goodbye"]]
QUICK_FAILS = [["resolve_error"], ["refuse", 2], ["refuse", 64], ["garbage"], ["badname"]]


@st.composite
def _case(draw, tier):
    nfail = draw(st.integers(0, 6))
    plan = []
    for _ in range(draw(st.integers(1, 4))):
        for _ in range(draw(st.integers(0, 4))):
            plan.append(draw(st.sampled_from(QUICK_FAILS + QUICK_FAILS + FAILS)))
        plan.append(draw(st.sampled_from([["ok"], ["ok"], ["slow_ok", 128]])))
    # predicted retry instants for the all-failures prefix (to aim events at them)
    aims = [0]
    t = 0.0
    for i, p in enumerate(plan[:8]):
        if p[0] in ("ok", "slow_ok"):
            break
        t += {"refuse": p[1] / 64 if len(p) > 1 else 0, "tcp_hang": 60.0, "silent": 30.0}.get(p[0], 0.1) + backoff(i + 1)
        aims.append(int(t * 64))
    events = [{"t": 0, "do": "start"}]
    for _ in range(draw(st.integers(0, 10))):
        r = draw(st.integers(0, 11))
        if draw(st.booleans()):
            tt = max(0, draw(st.sampled_from(aims)) + draw(st.sampled_from([-64, -2, -1, 0, 1, 2, 8, 64, 320])))
        else:
            tt = draw(st.integers(0, 64 * 150))
        if r <= 3:
            events.append({"t": tt, "do": "mdns", "rec": draw(st.sampled_from(["ptr", "a", "ptr", "other_ptr", "other_a", "ptr_wrong_type", "a_wrong_type", "other_txt", "other_aaaa", "other_srv", "other_nsec"])), "force": draw(st.booleans())})
        elif r <= 6:
            events.append({"t": tt, "do": "end", "how": draw(st.sampled_from(["reset", "discreq", "discreq", "silence", "force", "force_wf", "local"]))})
        elif r == 7:
            events.append({"t": tt, "do": draw(st.sampled_from(["stop", "stop_cb"]))})
            events.append({"t": tt + draw(st.sampled_from([0, 1, 64, 640])), "do": "start"})
        elif r == 8:
            events.append({"t": tt, "do": "start"})
        else:
            events.append({"t": tt, "do": "end", "how": "reset"})
    events.sort(key=lambda e: e["t"])
    case = {"named": draw(st.integers(0, 5)) != 0, "addr": draw(st.sampled_from(["ip", "ip", "name", "mdns", "mdns_dot", "bare"])), "K": 4.0, "plan": plan, "events": events, "horizon": draw(st.sampled_from([200, 400]))}
    if not case["named"] and case["addr"] in ("ip", "name") and draw(st.booleans()):
        case["name_late"] = True
    if draw(st.integers(0, 3)) == 0:
        case["cached"] = True
    if case["addr"] in ("ip", "name") and draw(st.integers(0, 3)) == 0:
        case["supplied_zc"] = True
    if draw(st.integers(0, 3)) == 0:
        # slow user callbacks; start()/stop() racing with a callback that is still running is outside the statement,
        # so these histories keep only the initial start()
        case["cb_delay"] = {k: draw(st.sampled_from([0, 1, 64, 200])) for k in ("connect", "disconnect", "error")}
        case["events"] = [e for i, e in enumerate(events) if i == 0 or e["do"] not in ("start", "stop", "stop_cb")]
    return case


def strategy(tier):
    return _case(tier)


def _mdns_addr_cases():
    """The device address itself is an mDNS name and no zeroconf instance was supplied: lookups and the manager's
    listener share the instance the library created."""
    for kind in (["refuse", 2], ["resolve_error"], ["garbage"]):
        for k in (1, 2, 3):
            for rec in ("ptr", "a"):
                yield {"named": True, "addr": "mdns", "K": 4.0, "plan": [kind] * k + [["refuse", 2]] * 2 + [["ok"]], "events": [{"t": 0, "do": "start"}, {"t": 64 * 3 * k + 40, "do": "mdns", "rec": rec}, {"t": 64 * 40, "do": "mdns", "rec": rec}], "horizon": 200}
        yield {"named": True, "addr": "mdns", "K": 4.0, "plan": [kind, kind, ["ok"]], "events": [{"t": 0, "do": "start"}, {"t": 64 * 30, "do": "end", "how": "discreq"}, {"t": 64 * 60, "do": "stop"}], "horizon": 200}


def _derived_name_cases():
    """No name= given: the manager derives it from the client address (bare name, x.local, x.local.) and listens."""
    for addr in ("mdns", "mdns_dot", "bare"):
        for rec in ("ptr", "a"):
            yield {"named": False, "addr": addr, "K": 4.0, "plan": [["refuse", 2], ["refuse", 2], ["ok"]], "events": [{"t": 0, "do": "start"}, {"t": 64 * 4, "do": "mdns", "rec": rec}], "horizon": 120}


def _local_end_cases():
    """The application ends the session itself (force / graceful, also with the DisconnectRequest write failing)
    while the manager runs: an expected end, the next attempt comes after the 5 s cool-down."""
    for how in ("force", "force_wf", "local"):
        for after in ([["ok"]], [["refuse", 2], ["ok"]]):
            yield {"named": True, "addr": "ip", "K": 4.0, "plan": [["ok"]] + after, "events": [{"t": 0, "do": "start"}, {"t": 128, "do": "end", "how": how}], "horizon": 60}


def _late_name_cases():
    """Manager built without a name (IP address, no name=); the application sets .name once the first session told it."""
    for rec in ("ptr", "a", "other_ptr", "other_a"):
        for how in ("reset", "discreq"):
            for k in (2, 4):
                yield {"named": False, "name_late": True, "addr": "ip", "K": 4.0, "plan": [["ok"]] + [["refuse", 2]] * k + [["ok"]],
                       "events": [{"t": 0, "do": "start"}, {"t": 128, "do": "end", "how": how}, {"t": 128 + 64 * (6 + 2 * k), "do": "mdns", "rec": rec}], "horizon": 120}


def _supplied_instance_cases():
    """The application supplies the zeroconf instance; the manager is stopped and started again; attempts keep failing:
    while it waits it listens on THAT instance."""
    for how in ("stop", "stop_cb"):
        for rec in ("ptr", "a"):
            yield {"named": True, "addr": "ip", "K": 4.0, "supplied_zc": True, "plan": [["refuse", 2]] * 2 + [["ok"], ["refuse", 2], ["refuse", 2], ["refuse", 2], ["ok"]],
                   "events": [{"t": 0, "do": "start"}, {"t": 64 * 20, "do": how}, {"t": 64 * 25, "do": "end", "how": "reset"}, {"t": 64 * 30, "do": "start"}, {"t": 64 * 36, "do": "mdns", "rec": rec}], "horizon": 120}
            yield {"named": True, "addr": "ip", "K": 4.0, "supplied_zc": True, "plan": [["refuse", 2]] * 3 + [["ok"]], "events": [{"t": 0, "do": "start"}, {"t": 64 * 4, "do": "mdns", "rec": rec}], "horizon": 60}


def _cached_record_cases():
    """The zeroconf cache already holds the device's records when the manager starts waiting; a record arriving during
    the wait still triggers the attempt."""
    for rec in ("ptr", "a"):
        for k in (1, 3):
            for at in (3, 8):
                yield {"named": True, "addr": "ip", "K": 4.0, "cached": True, "plan": [["refuse", 2]] * k + [["refuse", 2], ["ok"]],
                       "events": [{"t": 0, "do": "start"}, {"t": 64 * (at + (6 if k == 3 else 0)), "do": "mdns", "rec": rec}], "horizon": 120}


def _stop_start_same_instant_cases():
    """stop() and then start() in the same instant (and a little apart) while an attempt is handshaking or a user
    callback is still running: start() returned last, so the manager runs."""
    for first, cbd in ((["refuse", 2], {"error": 64}), (["ok"], {"connect": 64}), (["silent"], {}), (["refuse", 2], {"error": 200}), (["slow_ok", 64], {})):
        for t_stop in (8, 16, 32):
            for gap in (0, 1, 4, 16):
                for how in ("stop", "stop_cb"):
                    yield {"named": True, "addr": "ip", "K": 4.0, "plan": [first, ["ok"], ["ok"]], "cb_delay": cbd,
                           "events": [{"t": 0, "do": "start"}, {"t": t_stop, "do": how}, {"t": t_stop + gap, "do": "start"}], "horizon": 90}


def _stop_in_flight_restart_cases():
    """stop() while an attempt is in flight, start() again shortly after, the new attempt still at the TCP stage when
    whatever the stopped attempt left behind would be due."""
    for first in (["tcp_hang"], ["slow_ok", 64 * 20], ["silent"]):
        for t_stop in (32, 64, 100):
            for gap in (16, 32, 64):
                for how in ("stop", "stop_cb"):
                    yield {"named": True, "addr": "ip", "K": 4.0, "plan": [first, ["tcp_hang"], ["ok"]],
                           "events": [{"t": 0, "do": "start"}, {"t": t_stop, "do": how}, {"t": t_stop + gap, "do": "start"}], "horizon": 90}


def enumerated(tier):
    yield from _stop_in_flight_restart_cases()
    yield from _stop_start_same_instant_cases()
    yield from _cached_record_cases()
    yield from _supplied_instance_cases()
    yield from _late_name_cases()
    yield from _local_end_cases()
    yield from _derived_name_cases()
    yield from _mdns_addr_cases()
    # exact back-off ladder: k failures then success, for every failure kind
    for kind in (["refuse", 2], ["resolve_error"], ["garbage"], ["badname"], ["goodbye"]):
        for k in range(1, 9):
            yield {"named": True, "addr": "ip", "K": 4.0, "plan": [kind] * k + [["ok"]], "events": [{"t": 0, "do": "start"}], "horizon": 260}
    # auth errors: 60 s
    for kind in (["badauth"], ["reqenc"]):
        yield {"named": True, "addr": "ip", "K": 4.0, "plan": [kind, kind, ["ok"]], "events": [{"t": 0, "do": "start"}], "horizon": 200}
        yield {"named": True, "addr": "ip", "K": 4.0, "plan": [["refuse", 2], kind, ["refuse", 2], ["ok"]], "events": [{"t": 0, "do": "start"}], "horizon": 260}
    # slow user callbacks: the session ends while on_connect is still running, etc.
    for how in ("discreq", "reset"):
        for cbd in ({"connect": 200}, {"disconnect": 200}, {"error": 64}, {"connect": 64, "disconnect": 64, "error": 64}):
            for after in ([["ok"]], [["refuse", 2], ["ok"]]):
                yield {"named": True, "addr": "ip", "K": 4.0, "plan": [["ok"]] + after, "events": [{"t": 0, "do": "start"}, {"t": 64, "do": "end", "how": how}, {"t": 64 * 20, "do": "end", "how": "reset"}], "horizon": 120, "cb_delay": cbd}
    # a failure, then an mDNS-triggered attempt that fails too, then records again: the manager must still be listening
    for rec in ("ptr", "a"):
        yield {"named": True, "addr": "ip", "K": 4.0, "plan": [["refuse", 2], ["refuse", 2], ["refuse", 2], ["garbage"], ["ok"]], "events": [{"t": 0, "do": "start"}, {"t": 64, "do": "mdns", "rec": rec}, {"t": 64 * 3, "do": "mdns", "rec": rec}, {"t": 64 * 5, "do": "mdns", "rec": rec}], "horizon": 150}
    # session endings: expected -> 5 s cool-down, unexpected -> immediately; then failures count from 1 again
    for how in ("discreq", "reset", "silence"):
        for after in ([["ok"]], [["refuse", 2], ["refuse", 2], ["ok"]]):
            yield {"named": True, "addr": "ip", "K": 4.0, "plan": [["ok"]] + after, "events": [{"t": 0, "do": "start"}, {"t": 640, "do": "end", "how": how}], "horizon": 200}
    # mDNS while waiting / handshaking / connected / stopped, registered and forced, every record kind
    for rec in ("ptr", "a", "other_ptr", "other_a", "ptr_wrong_type", "a_wrong_type", "other_txt", "other_aaaa", "other_srv", "other_nsec"):
        for force in (False, True):
            # waiting for the 6 s back-off (n=3) at t~5.1: record at t=8 s
            yield {"named": True, "addr": "ip", "K": 4.0, "plan": [["refuse", 2]] * 3 + [["ok"]], "events": [{"t": 0, "do": "start"}, {"t": 8 * 64, "do": "mdns", "rec": rec, "force": force}], "horizon": 120}
            # connected
            yield {"named": True, "addr": "ip", "K": 4.0, "plan": [["ok"], ["ok"]], "events": [{"t": 0, "do": "start"}, {"t": 300, "do": "mdns", "rec": rec, "force": force}], "horizon": 60}
            # handshaking (silent device: hello pending for 30 s)
            yield {"named": True, "addr": "ip", "K": 4.0, "plan": [["refuse", 2], ["silent"], ["ok"]], "events": [{"t": 0, "do": "start"}, {"t": 64 * 10, "do": "mdns", "rec": rec, "force": force}], "horizon": 160}
            # TCP stage of a triggered attempt (hang), record while connecting
            yield {"named": True, "addr": "ip", "K": 4.0, "plan": [["refuse", 2], ["refuse", 2], ["tcp_hang"], ["ok"]], "events": [{"t": 0, "do": "start"}, {"t": 64 * 8, "do": "mdns", "rec": rec, "force": force}], "horizon": 200}
    # stop()/stop_callback() at and around retry instants and in every phase, then silence; restart afterwards
    for how in ("stop", "stop_cb"):
        for t_stop in (0, 1, 3, 64, 130, 131, 132, 64 * 5 + 6, 64 * 5 + 7, 64 * 5 + 8, 64 * 12, 64 * 40):
            for plan in ([["refuse", 2]] * 4 + [["ok"]], [["refuse", 2], ["silent"], ["ok"]], [["refuse", 2], ["garbage"], ["tcp_hang"], ["ok"]], [["ok"], ["ok"]]):
                yield {"named": True, "addr": "ip", "K": 4.0, "plan": plan, "events": [{"t": 0, "do": "start"}, {"t": t_stop, "do": how}, {"t": t_stop + 64 * 30, "do": "mdns", "rec": "ptr", "force": True}], "horizon": 150}
                yield {"named": t_stop % 2 == 0, "addr": "ip", "K": 4.0, "plan": plan, "events": [{"t": 0, "do": "start"}, {"t": t_stop, "do": how}, {"t": t_stop + 64 * 20, "do": "start"}], "horizon": 200}
