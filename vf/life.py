"""Lifecycle scenario engine (layer S) shared by C05, C07, C08, C09.

A *case* describes one APIClient session on a simulated device plus a list of
injected events (user calls, device chunks, faults), each at a virtual time
(sim event: runs after the handles already ready in that turn) or at the start
of a loop iteration (runs before them).  `run(case)` executes it on the real
client and returns the observations; the oracle_* functions judge them.
"""
from __future__ import annotations

import asyncio
import base64
from typing import Any

from hypothesis import strategies as st

from . import wire
from .runner import Violation
from .simloop import START, IterationCap
from .simnet import D, Env, make_client

TICK = 1 / 256  # event-time grid (D = 4 ticks)
KEY = bytes(range(1, 33))
HORIZON = 4000.0

RANK = {"INITIALIZED": 0, "SOCKET_OPENED": 1, "HANDSHAKE_COMPLETE": 2, "CONNECTED": 3, "CLOSED": 4}

USER_ACTS = ("disconnect", "force", "cancel")
FAULT_ACTS = ("eof", "reset", "writefail_raise", "writefail_fatal", "silence", "writefail_raise_rt", "reset_etimedout", "lost_raw")
FRAME_NAMES = (
    "discreq", "state", "state2", "ping", "pong", "devinfo", "unknown", "garbage", "reqenc", "badproto",
    "hello", "connresp", "discresp", "badmac", "gettime", "badstate",
)
CLOSING_FRAMES = {"discreq", "garbage", "reqenc", "badproto", "badmac", "badstate"}


def _pb():
    from aioesphomeapi import api_pb2 as pb

    return pb


def encode_frames(sess, names: list[str]) -> bytes:
    """Device-side bytes for a list of frame names, encoded in order (Noise: in nonce order)."""
    pb = _pb()
    noise = sess.dev.noise_key is not None
    out = b""
    for n in names:
        if ":" in n:  # "<frame>:<k>" = only the first k bytes of that frame arrive (a fragment; the rest never does)
            base, k = n.split(":")
            out += encode_frames(sess, [base])[: int(k)]
        elif n == "discreq":
            out += sess.encode(pb.DisconnectRequest())
        elif n == "discresp":
            out += sess.encode(pb.DisconnectResponse())
        elif n == "state":
            out += sess.encode(pb.SwitchStateResponse(key=1, state=True))
        elif n == "state2":
            out += sess.encode(pb.SensorStateResponse(key=2, state=1.5))
        elif n == "ping":
            out += sess.encode(pb.PingRequest())
        elif n == "pong":
            out += sess.encode(pb.PingResponse())
        elif n == "gettime":
            out += sess.encode(pb.GetTimeRequest())
        elif n == "devinfo":
            out += sess.encode(pb.DeviceInfoResponse(name=sess.dev.name))
        elif n == "hello":
            out += sess.encode(pb.HelloResponse(api_version_major=1, api_version_minor=10, name=sess.dev.name))
        elif n == "connresp":
            out += sess.encode(pb.ConnectResponse())
        elif n == "unknown":
            out += sess.encode((200, b"\x08\x01"))
        elif n == "badproto":
            out += sess.encode((2, b"\x08"))  # HelloResponse with a truncated varint
        elif n == "badstate":
            # TextSensorStateResponse (a type the flow subscribes to): key, then a string that is not valid UTF-8
            out += sess.encode((27, b"\x0d\x07\x00\x00\x00\x12\x02\xff\xfe"))
        elif n == "garbage":
            out += b"\x02\x00\x00zz" if noise else b"\x07\x01\x02"
        elif n == "reqenc":
            out += b"\x02\x00\x00" if noise else b"\x01\x00\x00"
        elif n == "badmac":
            out += wire.enc_noise_outer(b"\x00" * 20) if noise else b"\x09\x09"
        else:
            raise ValueError(n)
    return out


class Obs:
    """Everything observed in one run."""

    def __init__(self) -> None:
        self.env: Env | None = None
        self.trace: list[dict] = []
        self.results: dict[str, tuple] = {}
        self.tasks_pending: list[str] = []
        self.audit: list[str] = []
        self.loop_errors: list[str] = []
        self.iterations = 0
        self.harness_error: str | None = None
        self.quiescent = False
        self.cancelled: set[str] = set()
        self.skipped: list[str] = []
        self.conn_count = 0
        self.post_close_timers: list[str] = []
        self.post_close_open: list[str] = []
        self.post_close_blocked: list[str] = []
        self.turn_inconsistency: list[str] = []
        self.reuse: list[str] = []
        self.end_time = 0.0
        self.n_addr = 1
        self.dead_writes = 0


def run(case: dict, *, count_only: bool = False) -> Obs:
    pb = _pb()
    from aioesphomeapi import connection as connmod
    from aioesphomeapi.core import APIConnectionError

    obs = Obs()
    obs.K = float(case.get("K", 32.0))
    noise = bool(case.get("noise"))
    env = Env(noise_key=KEY if noise else None)
    obs.env = env
    loop = env.loop
    dev = env.dev
    login = bool(case.get("login"))
    password = case.get("password")
    K = float(case.get("K", 32.0))
    tcp = case.get("tcp", "ok")
    tcp_delay = int(case.get("tcp_delay", 4)) * D
    env.tcp_script = [("ok", tcp_delay)] if tcp == "ok" else [("refuse", tcp_delay)] if tcp == "refuse" else [("hang",)]
    if case.get("tcp_script"):
        # one outcome per TCP attempt (the last one repeats): ["ok"|"refuse"|"oserror", delay in D] | ["hang"]
        env.tcp_script = [(x[0], int(x[1]) * D) if len(x) > 1 else (x[0],) for x in case["tcp_script"]]
    addresses = case.get("addresses") or ["10.0.0.1"]
    for host, script in (case.get("dns") or {}).items():
        # OS resolver script per host name: ["ok", [ips], delay] | ["empty", delay] | ["error", delay] | ["hang"]
        if script[0] == "ok":
            env.dns[host] = ("ok", list(script[1]), int(script[2]) * D if len(script) > 2 else D)
        elif script[0] == "hang":
            env.dns[host] = ("hang",)
        elif script[0] == "unicode_error":
            env.dns[host] = ("unicode_error",)
        else:
            env.dns[host] = (script[0], int(script[1]) * D if len(script) > 1 else D)
    n_addr = 0
    for a in addresses:
        sc = env.dns.get(a)
        n_addr += len(sc[1]) if sc and sc[0] == "ok" else 1
    obs.n_addr = max(1, n_addr)
    env.sock_fault = case.get("sock_fault")
    if not case.get("auto", True):
        dev.auto = set()
    dev.latency = int(case.get("latency", 1)) * D
    if case.get("noise_mute"):
        dev.noise_mute = True
    if case.get("invalid_password"):
        dev.invalid_password = True
    if case.get("api_major") is not None:
        dev.api_version = (int(case["api_major"]), 10)
    if case.get("device_name") is not None:
        dev.name = case["device_name"]  # ("" = a device that announces no name in its hello)
    if case.get("devinfo_extra"):
        # whoever asks for the device's description gets it with these frames behind it in the same chunk
        def _devinfo(s_, _p, extra=list(case["devinfo_extra"])):
            s_.send_raw(s_.encode(pb.DeviceInfoResponse(name=dev.name or "unnamed", mac_address="AA:BB:CC:DD:EE:FF")) + encode_frames(s_, extra))

        dev.handlers[9] = _devinfo
    hello_extra = list(case.get("hello_extra") or [])
    hello_then = case.get("hello_then")  # "eof" | "reset": right behind the hello answer, in the same loop turn
    if hello_extra or hello_then:
        # encoded lazily, in order, when the hello answer is built (needs the session's noise state)
        class _Lazy:
            pass

        orig_flush = dev._flush_hello

        def flush(s, _orig=orig_flush):
            msgs = getattr(s, "_pending_hello", None)
            s._pending_hello = None
            if not msgs:
                return
            # (hello_replace: the extra frames arrive INSTEAD of the hello answer, at the instant it was due)
            data = (b"" if case.get("hello_replace") else b"".join(s.encode(m) for m in msgs)) + encode_frames(s, hello_extra)
            s.send_raw(data, cuts=case.get("hello_cuts"))
            if hello_then:
                tr_ = s.transport
                loop.sim_at(s._next_feed - START, tr_.feed_eof if hello_then == "eof" else tr_.reset)

        dev._flush_hello = flush  # type: ignore[method-assign]
    elif case.get("hello_cuts"):
        dev.hello_cuts = list(case["hello_cuts"])

    cli = make_client(
        env,
        password=password,
        # (psk_text: the configured key string as given, e.g. a malformed one -- the attempt then fails at its second phase)
        noise_psk=case["psk_text"] if case.get("psk_text") is not None else (base64.b64encode(KEY).decode() if noise else None),
        keepalive=K,
        expected_name=case.get("expected_name"),
        address=addresses[0],
        addresses=addresses if len(addresses) > 1 else None,
    )
    user_disc = [False]

    n_reconn = [0]

    async def on_stop(expected: bool) -> None:
        env.log("on_stop", arg=expected, conn=_last_closed_conn(env),
                seen=[(i, c.connection_state.name, bool(c.is_connected)) for i, c in enumerate(env.conns)])
        if case.get("on_stop_reconnect") and n_reconn[0] < int(case.get("on_stop_reconnect")):
            # the usual purpose of a stop callback: reconnect at once (runs synchronously inside the close on 3.12,
            # where the client starts the callback as an eager task)
            n_reconn[0] += 1
            env.spawn(f"reconn{n_reconn[0]}", cli.connect(on_stop=on_stop, login=login))

    def on_state(state: Any) -> None:
        env.log("cb", what=type(state).__name__)

    flow = case.get("flow", "full")
    split = bool(case.get("split"))
    gap = int(case.get("gap", 0))

    def phase_return(phase: str) -> None:
        conn = env.conns[-1] if env.conns else None
        env.log(
            "phase_return",
            phase=phase,
            conn=len(env.conns) - 1,
            state=conn.connection_state.name if conn is not None else None,
            is_connected=conn.is_connected if conn is not None else None,
        )

    async def main_flow() -> None:
        if split:
            await cli.start_connection(on_stop=on_stop)
            phase_return("start")
            for _ in range(gap):
                await asyncio.sleep(0)
            if user_disc[0]:
                return
            await cli.finish_connection(login=login)
            phase_return("finish")
        else:
            await cli.connect(on_stop=on_stop, login=login)
            phase_return("finish")
        if flow == "connect":
            return
        cli.subscribe_states(on_state)
        env.log("subscribed")
        info = await cli.device_info()
        env.log("flow_devinfo", name=info.name)
        if flow == "full+disconnect":
            await asyncio.sleep(2 * D)
            env.log("graceful", conn=_conn_id(cli), why="flow-disconnect")
            await cli.disconnect()
            return
        # stay for a keepalive tick, then one more request
        await asyncio.sleep(K + 2 * D)
        await cli.device_info()

    def spawn_main() -> None:
        env.spawn("main", main_flow())

    loop.sim_at(0, spawn_main)

    # ---------------------------------------------------------------- events
    n_user = [0]

    def do_event(ev: dict, idx: int) -> None:
        act = ev["do"]
        sess = dev.session
        tr = sess.transport if sess else None
        if act == "disconnect":
            user_disc[0] = True
            n_user[0] += 1
            cid = _conn_id(cli)
            env.log("user_call", what="disconnect", conn=cid)
            if cid is not None:
                env.log("graceful", conn=cid, why="disconnect()")
            env.spawn(f"disconnect{idx}", cli.disconnect())
        elif act == "force":
            user_disc[0] = True
            cid = _conn_id(cli)
            env.log("user_call", what="force", conn=cid)
            if cid is not None:
                env.log("graceful", conn=cid, why="force")
            env.spawn(f"force{idx}", cli.disconnect(force=True))
        elif act == "cancel":
            env.cancel("main")
        elif act == "stream_list":
            # a request whose answer never completes: the device keeps sending messages of the awaited types, each
            # less than the request's timeout after the previous one, and never the final one
            def streamer(s_, _payload, n=int(ev.get("n", 25)), every=float(ev.get("every", 2.0))):
                for i in range(n):
                    s_.send(pb.ListEntitiesSwitchResponse(key=i + 1, name="s%d" % i, object_id="s%d" % i), delay=dev.latency + i * every)

            dev.handlers[11] = streamer
            env.spawn(f"list{idx}", cli.list_entities_services())
        elif act == "big_request":
            # an awaited request with an unusually large (legal) payload: over Noise it may not fit a frame -- however
            # the library deals with that, the caller gets a result or an error of the library's hierarchy
            env.spawn(f"big{idx}", cli.bluetooth_gatt_write(1, 1, bytes(int(ev.get("size", 70000))), True, timeout=10.0))
        elif act == "cancel_disc":
            # the caller of a pending graceful disconnect() gives up (wait_for / task cancellation)
            pend = [n for n, t in env.tasks if n.startswith("disconnect") and not t.done()]
            if not pend:
                obs.skipped.append(f"{idx}:cancel_disc-nothing-pending")
                return
            env.cancel(pend[-1])
        elif act in ("reuse_start", "reuse_finish"):
            # one connect per object: a second start/finish on the connection object in use must be
            # refused with RuntimeError and change nothing.  (A second finish while the first one is
            # still in SOCKET_OPENED is not probed: the guard cannot tell it from the first use.)
            conn = env.conns[-1] if env.conns else None
            stn = conn.connection_state.name if conn is not None else None
            if act == "reuse_start" and stn == "INITIALIZED" and case.get("overlap_probe"):
                # a second start_connection() while the first one is still resolving / connecting: the state cannot
                # tell the two apart, but one object serves ONE connect attempt -- the overlapping call may fail any
                # way it likes (and take the object down with it), it must not return as if it had connected too
                env.log("reuse_probe", what="start_overlap", state=stn)

                async def probe_overlap():
                    try:
                        await conn.start_connection()
                    except BaseException:  # noqa: BLE001
                        return
                    obs.reuse.append(f"conn{len(env.conns) - 1}:INITIALIZED:start_overlap:returned")

                env.spawn(f"reuse{idx}", probe_overlap())
                return
            ok_probe = conn is not None and (
                (act == "reuse_start" and stn != "INITIALIZED") or (act == "reuse_finish" and stn in ("HANDSHAKE_COMPLETE", "CONNECTED", "CLOSED"))
            )
            if not ok_probe:
                obs.skipped.append(f"{idx}:{act}")
                return
            before = (len(env.tcp_calls), len(env.transports), stn)
            env.log("reuse_probe", what=act, state=stn)

            async def probe():
                try:
                    if act == "reuse_start":
                        await conn.start_connection()
                    else:
                        await conn.finish_connection(login=login)
                    out = "returned"
                except RuntimeError:
                    out = "RuntimeError"
                except BaseException as e:  # noqa: BLE001
                    out = type(e).__name__
                after = (len(env.tcp_calls), len(env.transports))
                if out != "RuntimeError":
                    obs.reuse.append(f"conn{len(env.conns) - 1}:{stn}:{act[6:]}:{out}")
                elif after != before[:2]:
                    obs.reuse.append(f"conn{len(env.conns) - 1}:{stn}:{act[6:]}:opened-socket")

            env.spawn(f"reuse{idx}", probe())
        elif tr is None or tr.closing:
            obs.skipped.append(f"{idx}:{act}")
        elif act == "eof":
            tr.feed_eof()
        elif act == "reset":
            tr.reset()
        elif act == "reset_etimedout":
            # the kernel gives up on the peer: connection_lost(TimeoutError(ETIMEDOUT)) – an OSError that is ALSO a TimeoutError
            tr.reset(TimeoutError(110, "Connection timed out"))
        elif act == "lost_raw":
            # an exception that escaped data_received (e.g. a ValueError out of a converter): asyncio closes the transport with it
            tr.reset(ValueError("invalid literal for int() with base 16: 'zz'"))
        elif act.startswith("writefail") and not tr.reading:
            # a write error cannot be armed before connection_made (no established transport yet)
            obs.skipped.append(f"{idx}:{act}-before-connection_made")
        elif act == "writefail_raise":
            tr.write_fail = ("raise", OSError(32, "Broken pipe"))
            env.log("fault_armed", what=act)
        elif act == "writefail_raise_rt":
            # uvloop (and asyncio after write_eof / on a closed handle) raise RuntimeError from write()
            tr.write_fail = ("raise", RuntimeError("unable to perform operation on <TCPTransport closed=True>; the handler is closed"))
            env.log("fault_armed", what=act)
        elif act == "writefail_fatal":
            tr.write_fail = ("fatal", BrokenPipeError(32, "Broken pipe"))
            env.log("fault_armed", what=act)
        elif act == "silence":
            dev.auto = set()
            env.log("fault_armed", what=act)
        elif act == "stall":
            # the peer stops reading for a while (send buffer full): writes queue up in the transport
            tr.stall()
            loop.sim_after(int(ev.get("for", 2000)) * TICK, tr.unstall)
        elif act == "chunk":
            if noise and sess.noise is None:
                obs.skipped.append(f"{idx}:chunk-before-noise-ready")
                return
            if noise and sess.inflight:
                # bytes the device sent earlier are still on their way: an injected frame would overtake them on the
                # same TCP stream (and break the nonce sequence) – impossible on a real connection, so not injected
                obs.skipped.append(f"{idx}:chunk-would-overtake-in-flight-data")
                return
            data = encode_frames(sess, ev["frames"])
            cuts = ev.get("cuts")
            if cuts:
                # later parts arrive as separate, immediately following sim events
                parts = list(wire.iter_cut(data, sorted(c for c in cuts if 0 <= c <= len(data))))
                tr.feed(parts[0])
                for p in parts[1:]:
                    loop.sim_after(0, tr.feed, p)
            else:
                tr.feed(data)
        else:
            raise ValueError(act)

    if not count_only:
        for idx, ev in enumerate(case.get("events") or []):
            if "it" in ev:  # start of iteration k: before the handles already ready
                loop.inject_at_iteration(int(ev["it"]), lambda ev=ev, idx=idx: do_event(ev, idx))
            elif "ite" in ev:  # queued during iteration k: after the handles already ready
                loop.inject_at_iteration(int(ev["ite"]), lambda ev=ev, idx=idx: loop.call_soon(do_event, ev, idx))
            else:
                loop.sim_at(int(ev["at"]) * TICK, do_event, ev, idx)

    # --------------------------------------------------- per-turn monitor (C05, C08)
    closed_at_iter: dict[int, int] = {}

    def on_iteration(it: int) -> None:
        for cid, conn in enumerate(env.conns):
            st_ = conn.connection_state
            if conn.is_connected != (st_ is connmod.ConnectionState.CONNECTED):
                obs.turn_inconsistency.append(f"it{it}:conn{cid}:{st_.name}:is_connected={conn.is_connected}")
            if st_ is connmod.ConnectionState.CLOSED:
                closed_at_iter.setdefault(cid, it)
            if cid in closed_at_iter:  # closed at some turn boundary (even if the state was overwritten later)
                c_it = closed_at_iter[cid]
                if it == c_it + 3:
                    # "its transport and socket are closed": not only at quiescence -- a socket still open three turns
                    # after the close is an open socket for as long as the peer chooses (stalled peer, unsent buffer)
                    # "no task stays blocked on it": a caller still inside a connect phase of this connection three turns
                    # after it closed is blocked on a dead connection
                    mt = env.task("main")
                    if (mt is not None and not mt.done() and cid == len(env.conns) - 1 and not case.get("on_stop_reconnect")
                            and not any(e["kind"] == "phase_return" for e in env.trace)  # (between the two phases the caller is not waiting on it)
                            and any(e["kind"] == "conn_start_called" and e["conn"] == cid for e in env.trace)):
                        obs.post_close_blocked.append(f"conn{cid}: the connect call is still pending three loop turns after the connection closed (t={loop.now():.3f})")
                    for tr_ in env.transports:
                        if tr_.conn_id == cid and not tr_.sock.closed:
                            obs.post_close_open.append(f"conn{cid}: socket #{tr_.sock.idx} still open three loop turns after the connection closed ({len(tr_.buffer)} unsent bytes in the transport buffer)")
                    for h in loop.armed_timers():
                        cb = h._callback
                        owner = getattr(cb, "__self__", None)
                        if owner is conn or cb is connmod.handle_timeout:
                            obs.post_close_timers.append(
                                f"conn{cid}:{getattr(cb, '__qualname__', getattr(cb, '__name__', repr(cb)))}"
                            )

    loop.on_iteration = on_iteration

    # --------------------------------------------------- finalizer: wind a healthy session down
    def finalizer() -> None:
        conn = cli._connection
        env.log("finalizer", live=conn is not None)
        if conn is not None:
            cid = _conn_id(cli)
            env.log("graceful", conn=cid, why="final-disconnect")
            env.log("user_call", what="disconnect", conn=cid)
            env.spawn("final", cli.disconnect())

    final_at = float(case.get("final_at", 1000.0))
    loop.sim_at(final_at, finalizer)
    loop.horizon = START + HORIZON

    try:
        env.run()
    except IterationCap as e:
        obs.harness_error = str(e)
    obs.quiescent = loop.quiescent
    obs.end_time = loop.now()
    obs.iterations = loop.iterations
    obs.trace = env.trace
    obs.results = dict(env.results)
    obs.cancelled = set(env.cancelled_by_harness)
    obs.tasks_pending = [n for n, t in env.tasks if not t.done()]
    obs.audit = env.audit()
    # exceptions that reached the loop's exception handler; an APIConnectionError raised out of a
    # timer/reader callback (e.g. the keepalive's write failing) is the library's documented way of
    # reporting and is not counted – a raw error (AttributeError on a closed connection, ...) is
    obs.loop_errors = [
        f"{type(c.get('exception')).__name__}:{c.get('message', '')[:80]}:{str(c.get('exception'))[:80]}:{c.get('handle')!r:.120}"
        for c in loop.errors
        if not isinstance(c.get("exception"), APIConnectionError)
    ]
    obs.conn_count = len(env.conns)

    # one connect per object (C05): a used connection object must refuse both phases and open no socket
    if not count_only and obs.harness_error is None:
        _probe_reuse(env, obs, login)
    env.close()
    return obs


def _probe_reuse(env: Env, obs: Obs, login: bool) -> None:
    loop = env.loop
    loop.horizon = None
    for cid, conn in enumerate(env.conns):
        st_name = conn.connection_state.name
        n_tcp = len(env.tcp_calls)
        n_tr = len(env.transports)

        async def probe(conn=conn):
            out = []
            for name, mk in (("start", lambda: conn.start_connection()), ("finish", lambda: conn.finish_connection(login=login))):
                try:
                    await mk()
                    out.append((name, "returned"))
                except RuntimeError:
                    out.append((name, "RuntimeError"))
                except BaseException as e:  # noqa: BLE001
                    out.append((name, type(e).__name__))
            return out

        used = any(e["kind"] == "conn_start_called" and e["conn"] == cid for e in env.trace)
        if not used:
            continue  # its start_connection coroutine never began to run (caller cancelled first)
        task = loop.create_task(probe())
        loop.horizon = loop.time() + 500
        try:
            loop.run_until_quiescent()
        except IterationCap:
            obs.harness_error = "iteration cap in reuse probe"
            return
        if not task.done():
            obs.reuse.append(f"conn{cid}:{st_name}:probe-hung")
            task.cancel()
            continue
        for name, outcome in task.result():
            if outcome != "RuntimeError":
                obs.reuse.append(f"conn{cid}:{st_name}:{name}:{outcome}")
        if len(env.tcp_calls) != n_tcp or len(env.transports) != n_tr:
            obs.reuse.append(f"conn{cid}:{st_name}:opened-socket")


def _conn_id(cli) -> int | None:
    c = cli._connection
    return getattr(c, "_vf_id", None) if c is not None else None


def _last_closed_conn(env: Env) -> int | None:
    for e in reversed(env.trace):
        if e["kind"] == "state" and e["value"].name == "CLOSED":
            return e["conn"]
    return None


# ===========================================================================
# oracles
# ===========================================================================
def state_log(obs: Obs) -> dict[int, list[tuple[int, str]]]:
    out: dict[int, list[tuple[int, str]]] = {}
    for e in obs.trace:
        if e["kind"] == "state":
            out.setdefault(e["conn"], []).append((e["seq"], e["value"].name))
    return out


def oracle_c05(obs: Obs) -> list[Violation]:
    v: list[Violation] = []
    cur: dict[int, str] = {}
    tr_conn: dict[int, int] = {}
    lost: dict[int, dict] = {}
    answered: dict[int, dict] = {}
    for e in obs.trace:
        k = e["kind"]
        if k == "transport_new" and e.get("conn") is not None:
            tr_conn[e["tr"]] = e["conn"]
        elif (k == "eof" or (k == "connection_lost" and e.get("exc"))) and e.get("tr") in tr_conn:
            # the transport has just told the library that the link is gone (EOF read / connection_lost with an
            # error): that fatal error takes effect there and then, whatever else the connection is waiting for
            lost.setdefault(tr_conn[e["tr"]], e)
        elif k == "rx" and e.get("type") == 6 and tr_conn:
            # the client has answered the device's DisconnectRequest: that disconnect has taken effect -- no connect
            # phase completing in the same moment may carry the connection on to a later state
            cid_ = tr_conn[max(tr_conn)]
            if any(x["kind"] == "deliver" and x.get("type") == 5 and x.get("conn") == cid_ and x["seq"] < e["seq"] for x in obs.trace):
                answered.setdefault(cid_, e)
        elif k == "state" and e["conn"] in answered and e["value"].name != "CLOSED":
            ae = answered[e["conn"]]
            v.append(Violation("C05", f"c05:disconnect-undone:{e['value'].name}-after-DisconnectResponse", f"conn{e['conn']}: DisconnectResponse written at seq {ae['seq']} t={ae['t']}, state set to {e['value'].name} at seq {e['seq']} t={e['t']}"))
        elif k == "state" and e["conn"] in lost and e["value"].name != "CLOSED":
            le = lost[e["conn"]]
            v.append(Violation("C05", f"c05:fatal-error-undone:{e['value'].name}-after-{le['kind']}", f"conn{e['conn']}: the transport reported {le['kind']} at seq {le['seq']} t={le['t']}, yet the state was set to {e['value'].name} at seq {e['seq']} t={e['t']}"))
        if k == "on_stop":
            # the stop callback is the notification that the session is over: the connection it belongs to must
            # already be in the closed state and must not report 'connected' any more
            for cid, st_name, isc in e.get("seen") or []:
                if isc or st_name == "CONNECTED":
                    v.append(Violation("C05", f"c05:reports-connected-in-stop-callback:{st_name}", f"conn{cid} is {st_name} / is_connected={isc} while its stop callback runs (seq {e['seq']})"))
        if k == "conn_new":
            cur[e["conn"]] = "INITIALIZED"
        elif k == "state":
            new = e["value"].name
            old = cur.get(e["conn"], "INITIALIZED")
            if old == "CLOSED" and new != "CLOSED":
                v.append(Violation("C05", f"c05:left-closed:CLOSED->{new}", f"conn{e['conn']} at seq {e['seq']} t={e['t']}"))
            elif RANK[new] < RANK[old]:
                v.append(Violation("C05", f"c05:state-regressed:{old}->{new}", f"conn{e['conn']} at seq {e['seq']}"))
            cur[e["conn"]] = new
        elif k == "is_connected":
            st_ = cur.get(e["conn"], "INITIALIZED")
            if bool(e["value"]) != (st_ == "CONNECTED"):
                v.append(Violation("C05", f"c05:is_connected-mismatch:{st_}:{e['value']}", f"seq {e['seq']}"))
        elif k == "phase_return":
            want = "SOCKET_OPENED" if e["phase"] == "start" else "CONNECTED"
            if e["state"] != want:
                v.append(
                    Violation("C05", f"c05:phase-returned-normally-in:{e['state']}", f"{e['phase']} phase returned with state {e['state']}, expected {want}")
                )
    for cid_, ae in answered.items():
        if cur.get(cid_) != "CLOSED":
            v.append(Violation("C05", f"c05:disconnect-undone:still-{cur.get(cid_)}", f"conn{cid_}: DisconnectResponse written at t={ae['t']} but the connection is {cur.get(cid_)} at the end"))
    for x in obs.turn_inconsistency[:1]:
        v.append(Violation("C05", "c05:is_connected-mismatch-at-turn", x))
    for x in obs.reuse[:1]:
        v.append(Violation("C05", "c05:connection-object-reused:" + x.split(":", 2)[2], x))
    return v


def oracle_c07(obs: Obs) -> list[Violation]:
    v: list[Violation] = []
    sl = state_log(obs)
    stops: dict[int | None, list[dict]] = {}
    for e in obs.trace:
        if e["kind"] == "on_stop":
            stops.setdefault(e["conn"], []).append(e)
    for cid, log in sl.items():
        connected_seq = next((s for s, n in log if n == "CONNECTED"), None)
        got = stops.get(cid, [])
        if connected_seq is None:
            if got:
                v.append(Violation("C07", "c07:on_stop-without-connected", f"conn{cid}: {len(got)} calls"))
            continue
        closed_seq = next((s for s, n in log if n == "CLOSED" and s > connected_seq), None)
        if closed_seq is None:
            # CLOSED before CONNECTED (zombie) or never closed
            early = next((s for s, n in log if n == "CLOSED"), None)
            if early is None:
                if got:
                    v.append(Violation("C07", "c07:on_stop-while-open", f"conn{cid}"))
                # a local disconnect()/force disconnect on this established session ran to its end (returned or
                # raised): the session must have been ended and reported
                fin = [e for e in obs.trace if e["kind"] == "op_end" and e["op"].startswith(("force", "disconnect", "final"))]
                asked = [e for e in obs.trace if e["kind"] == "user_call" and e.get("conn") == cid and e["seq"] > connected_seq]
                if asked and fin and any(f["seq"] > asked[0]["seq"] for f in fin) and not got:
                    v.append(Violation("C07", "c07:on_stop-count:0", f"conn{cid} was established and a local {asked[0]['what']} call on it has completed, yet the session was never closed/reported (on_stop called 0 times)"))
                continue
            closed_seq = early
        if len(got) != 1:
            v.append(Violation("C07", f"c07:on_stop-count:{len(got)}", f"conn{cid} reached CONNECTED and closed; on_stop called {len(got)} times"))
            continue
        # the transport of an established session reported EOF / a reset: the session is over at that moment and has
        # to be reported then, not when somebody happens to disconnect later
        tr_of = [e["tr"] for e in obs.trace if e["kind"] == "transport_new" and e.get("conn") == cid]
        lost = next((e for e in obs.trace if e["kind"] in ("eof", "reset") and e["tr"] in tr_of and e["seq"] > connected_seq), None)
        if lost is not None and obs.trace[closed_seq]["t"] > lost["t"] + 1.0:
            v.append(Violation("C07", f"c07:session-lost-but-not-reported:{lost['kind']}", f"conn{cid}: {lost['kind']} on the established session at t={lost['t']:.3f}, closed/reported only at t={obs.trace[closed_seq]['t']:.3f}"))
            continue
        # a peer that fell silent on an established session is a close cause of its own (ping timeout): with nothing
        # arriving any more the session has to be ended and reported within 6.5 keepalive intervals (C10's bound)
        sil = next((e for e in obs.trace if e["kind"] == "fault_armed" and e["what"] == "silence" and e["seq"] > connected_seq), None)
        if sil is not None and cid == max(sl):
            last_in = max([sil["t"]] + [e["t"] for e in obs.trace if e["kind"] == "deliver" and e["conn"] == cid])
            t_closed = obs.trace[closed_seq]["t"]
            if t_closed > last_in + 6.5 * getattr(obs, "K", 32.0) + 1.0:
                v.append(Violation("C07", "c07:silent-peer-not-reported", f"conn{cid}: device silent since t={sil['t']:.2f}, last message delivered at t={last_in:.2f}, K={obs.K}: the session was still open at t={t_closed:.2f} (ping timeout due by {last_in + 6.5 * obs.K:.2f})"))
                continue
        graceful = [e for e in obs.trace if e["kind"] == "graceful" and e["conn"] == cid and e["seq"] < closed_seq]
        # a DisconnectRequest counts once the session can handle peer requests, i.e. it was
        # delivered while the visible state was HANDSHAKE_COMPLETE or CONNECTED (a frame pushed
        # by a device before the client's hello was even sent is not a request the protocol defines)
        graceful += [
            e
            for e in obs.trace
            if e["kind"] == "deliver" and e["conn"] == cid and e["type"] == 5 and e["seq"] < closed_seq
            and _state_at(log, e["seq"]) in ("HANDSHAKE_COMPLETE", "CONNECTED")
        ]
        want = bool(graceful)
        if bool(got[0]["arg"]) != want:
            why = graceful[0].get("why", "DisconnectRequest delivered") if graceful else "no graceful initiation"
            v.append(
                Violation(
                    "C07",
                    f"c07:on_stop-arg:{got[0]['arg']}-expected-{want}",
                    f"conn{cid}: on_stop({got[0]['arg']}), expected {want} ({why}); closed at seq {closed_seq}",
                )
            )
    for cid in stops:
        if cid not in sl:
            v.append(Violation("C07", "c07:on_stop-unattributed", f"{cid}"))
    return v


def _state_at(log: list[tuple[int, str]], seq: int) -> str:
    cur = "INITIALIZED"
    for s, n in log:
        if s > seq:
            break
        cur = n
    return cur


def oracle_c08(obs: Obs) -> list[Violation]:
    v: list[Violation] = []
    sl = state_log(obs)
    tr_conn = {e["tr"]: e["conn"] for e in obs.trace if e["kind"] == "transport_new"}
    closed_seq = {cid: next((s for s, n in log if n == "CLOSED"), None) for cid, log in sl.items()}
    # single-connection scenarios: subscriber callbacks belong to the only connection that got CONNECTED
    for e in obs.trace:
        if e["kind"] == "write":
            cid = tr_conn.get(e["tr"])
            cs = closed_seq.get(cid)
            if e.get("dead"):
                # handed to a transport whose socket the connection itself had already closed
                # (connection_made racing a close): cannot reach the device; counted, not judged
                obs.dead_writes += 1
                continue
            if cs is not None and e["seq"] > cs:
                v.append(Violation("C08", "c08:write-after-close", f"conn{cid}: {len(e['data'])} bytes written at seq {e['seq']} after CLOSED at seq {cs}"))
                break
    last_closed = max((s for s in closed_seq.values() if s is not None), default=None)
    if last_closed is not None and all(s is not None for s in closed_seq.values()):
        for e in obs.trace:
            if e["kind"] == "cb" and e["seq"] > last_closed:
                v.append(Violation("C08", "c08:delivery-after-close", f"subscriber callback {e['what']} at seq {e['seq']} after CLOSED at seq {last_closed}"))
                break
    for x in obs.loop_errors[:1]:
        v.append(Violation("C08", "c08:loop-callback-raised:" + x.split(":", 1)[0], x))
    for x in obs.post_close_open[:1]:
        v.append(Violation("C08", "c08:socket-open-after-close", x))
    for x in obs.post_close_blocked[:1]:
        v.append(Violation("C08", "c08:connect-call-blocked-after-close", x))
    # the transport reported EOF / a reset: whatever state the connection is in, it closes then -- not when a pending
    # local disconnect happens to run out of patience
    tr_conn2 = {e["tr"]: e.get("conn") for e in obs.trace if e["kind"] == "transport_new"}
    for e in obs.trace:
        if e["kind"] in ("eof", "reset") and tr_conn2.get(e["tr"]) is not None:
            cid = tr_conn2[e["tr"]]
            cs = closed_seq.get(cid)
            if cs is None or obs.trace[cs]["t"] > e["t"] + 1.0:
                v.append(Violation("C08", f"c08:lost-but-not-closed:{e['kind']}", f"conn{cid}: {e['kind']} at t={e['t']:.3f}; " + ("never closed" if cs is None else f"closed only at t={obs.trace[cs]['t']:.3f}")))
                break
    # a connection that has closed opens no socket any more
    tcp_conn = {}
    cur = None
    for e in obs.trace:
        if e["kind"] == "conn_start_called":
            cur = e["conn"]
        elif e["kind"] == "tcp_start" and cur is not None:
            cs = closed_seq.get(cur)
            # (a connect task whose wake-up was already queued when the close landed still runs its next step in that
            # very loop turn and is interrupted in the following one: that is the interrupt mechanism, not a leak)
            if cs is not None and e["seq"] > cs and e["it"] > obs.trace[cs]["it"] + 1:
                v.append(Violation("C08", "c08:tcp-attempt-after-close", f"conn{cur}: TCP connect started at seq {e['seq']} (loop turn {e['it']}) after CLOSED at seq {cs} (turn {obs.trace[cs]['it']})"))
                break
    for x in obs.post_close_timers[:1]:
        v.append(Violation("C08", "c08:timer-armed-after-close:" + x.split(":", 1)[1], x))
    kinds = sorted({a.split(":")[0] + (":" + a.split(":")[1] if a.startswith(("timer", "task")) else "") for a in obs.audit})
    if obs.audit:
        v.append(Violation("C08", "c08:leftover-at-quiescence:" + ",".join(kinds), ";".join(obs.audit[:6])))
    if obs.tasks_pending:
        v.append(Violation("C08", "c08:task-blocked:" + ",".join(sorted(_strip_idx(t) for t in obs.tasks_pending)), str(obs.tasks_pending)))
    return v


def _strip_idx(name: str) -> str:
    return name.rstrip("0123456789")


def op_bound(name: str, obs: Obs) -> float:
    base = _strip_idx(name)
    if base == "main":
        # resolve 30 + tcp 60 per address + handshake 30 + hello 30, + request timeouts 10 + 10, sleeps
        return 30 + 60 * obs.n_addr + 30 + 30 + 10 + 10 + 64 + 5 + 15
    if base in ("disconnect", "final", "force"):
        return 5.0 + 10.0 + 0.5
    if base == "list":
        return 60.0 + 0.5  # one request: its timeout (list_entities_services waits 60 s for the final message)
    return 60.0


def oracle_c09(obs: Obs) -> list[Violation]:
    from aioesphomeapi.core import APIConnectionError

    v: list[Violation] = []
    # the socket-connect stage of one connect: candidates are raced one per address family and round, each round is
    # given up after 60 s -- so it takes at most 60 s x the larger of (#IPv4, #IPv6 candidates)
    first = None
    for e in obs.trace:
        if e["kind"] == "conn_start_called":
            first = None
        elif e["kind"] == "tcp_start" and first is None:
            n6 = sum(1 for a in e["addrs"] if ":" in a)
            first = (e["t"], max(n6, len(e["addrs"]) - n6, 1))
        elif e["kind"] == "tcp_end" and first is not None and e["t"] - first[0] > 60.0 * first[1] + 1.0:
            v.append(Violation("C09", "c09:too-slow:socket-connect-stage", f"socket-connect stage started at t={first[0]} with {first[1]} round(s) of candidates, still going at t={e['t']}"))
            first = (first[0], 10**6)
    for name in obs.tasks_pending:
        v.append(Violation("C09", f"c09:hang:{_strip_idx(name)}", f"operation {name} still pending at {'quiescence' if obs.quiescent else 'horizon'} t={obs.end_time}"))
    for name, r in obs.results.items():
        kind, val, t0, t1 = r
        if kind == "exc":
            if isinstance(val, APIConnectionError):
                pass
            elif isinstance(val, asyncio.CancelledError) and name in obs.cancelled:
                pass
            else:
                from .runner import repo_frame_of

                v.append(
                    Violation(
                        "C09",
                        f"c09:raw-exception:{_strip_idx(name)}:{type(val).__name__}",
                        f"{name} raised {type(val).__name__}: {str(val)[:200]} (frame {repo_frame_of(val)})",
                    )
                )
            if type(val).__name__ == "TimeoutAPIError" and _strip_idx(name) in ("main", "req") and "after 10" in str(val) and t1 - t0 < 10.0 - 1e-6 and "DeviceInfoResponse" in str(val):
                v.append(Violation("C09", f"c09:timeout-reported-early:{_strip_idx(name)}", f"{name} reported '{str(val)[:80]}' after only {t1 - t0:.3f}s"))
        if t1 - t0 > op_bound(name, obs):
            v.append(Violation("C09", f"c09:too-slow:{_strip_idx(name)}", f"{name} took {t1 - t0}s > bound {op_bound(name, obs)}"))
    return v


ORACLES = {"C05": oracle_c05, "C07": oracle_c07, "C08": oracle_c08, "C09": oracle_c09}


# ===========================================================================
# generators
# ===========================================================================
def _event_strategy(max_iter: int):
    frames = st.lists(st.sampled_from(FRAME_NAMES), min_size=1, max_size=3)
    closing_chunk = st.tuples(
        st.lists(st.sampled_from(["state", "ping", "pong", "unknown"]), max_size=1),
        st.sampled_from(sorted(CLOSING_FRAMES)),
        st.lists(st.sampled_from(["state", "state2", "ping", "discreq", "devinfo", "gettime"]), max_size=2),
    ).map(lambda t: t[0] + [t[1]] + t[2])
    act = st.one_of(
        st.sampled_from(USER_ACTS + USER_ACTS + ("reuse_start", "reuse_finish")).map(lambda a: {"do": a}),
        st.sampled_from(FAULT_ACTS).map(lambda a: {"do": a}),
        frames.map(lambda f: {"do": "chunk", "frames": f}),
        closing_chunk.map(lambda f: {"do": "chunk", "frames": f}),
        st.sampled_from([40, 400, 3000, 30000]).map(lambda d: {"do": "stall", "for": d}),
    )
    ticks = st.one_of(
        st.integers(0, 48),
        st.integers(0, 48),
        st.sampled_from([16, 17, 20, 21, 24, 25, 28, 32, 36]),
        st.sampled_from([s * 256 for s in (1, 5, 10, 30, 32, 33, 60, 64, 90, 144, 176, 200)]),
        st.integers(0, 256 * 220),
    )
    when = st.one_of(
        ticks.map(lambda t: ("at", t)),
        st.integers(1, max_iter).map(lambda k: ("it", k)),
        st.integers(1, max_iter).map(lambda k: ("ite", k)),
    )
    return st.tuples(act, when).map(lambda aw: {**aw[0], aw[1][0]: aw[1][1]})


@st.composite
def case_strategy(draw, tier: str = "quick", max_events: int = 4, min_events: int = 0):
    c: dict[str, Any] = {
        "noise": draw(st.booleans()),
        "login": draw(st.booleans()),
        "flow": draw(st.sampled_from(["connect", "full", "full", "full+disconnect"])),
        "K": draw(st.sampled_from([32.0, 32.0, 8.0])),
    }
    r = draw(st.integers(0, 19))
    c["tcp"] = "refuse" if r == 0 else "hang" if r == 1 else "ok"
    if draw(st.integers(0, 3)) == 0:
        c["split"] = 1
        c["gap"] = draw(st.integers(0, 3))
    if draw(st.integers(0, 9)) == 0:
        c["auto"] = False
    if c["noise"] and draw(st.integers(0, 11)) == 4:
        c["noise_mute"] = True
    if draw(st.integers(0, 2)) == 0:
        c["hello_extra"] = draw(
            st.one_of(
                st.lists(st.sampled_from(FRAME_NAMES), min_size=1, max_size=2),
                st.sampled_from([["discreq"], ["garbage"], ["badproto"], ["discreq", "state"], ["state", "discreq"], ["ping"]]),
            )
        )
    if draw(st.integers(0, 4)) == 0:
        c["hello_cuts"] = draw(st.lists(st.integers(0, 40), min_size=1, max_size=3))
    if c["login"] and draw(st.booleans()):
        c["password"] = "pw"
    if draw(st.integers(0, 11)) == 0:
        c["sock_fault"] = draw(st.sampled_from(SOCK_FAULTS))
    if draw(st.integers(0, 11)) == 0:
        # a name that goes to the scripted OS resolver: failure / slowness in the resolve stage
        c["addresses"] = ["a.example.com"]
        c["dns"] = {"a.example.com": draw(st.sampled_from([["ok", ["10.1.0.1"], 2], ["error", 1], ["error", 8], ["empty", 1], ["hang"], ["ok", ["10.1.0.1"], 24]]))}
    c["events"] = draw(st.lists(_event_strategy(45), min_size=min_events, max_size=max_events))
    return c


SOCK_FAULTS = ["setblocking", "nodelay", "getpeername", "quickack", "rcvbuf"]


def sock_fault_sweep():
    """A socket set-up call fails right after the TCP connect succeeded (alone and with a user call / fault in the same run)."""
    for sc in golden_scenarios():
        for f in SOCK_FAULTS:
            yield {**sc, "sock_fault": f, "events": []}
            for ev in ({"do": "disconnect", "at": 17}, {"do": "force", "at": 16}, {"do": "cancel", "at": 16}):
                yield {**sc, "sock_fault": f, "events": [ev]}


def resolve_stage_sweep():
    """Failures, slowness and user calls while the host name is still being resolved."""
    for sc in golden_scenarios():
        for d in (["error", 1], ["error", 8], ["empty", 1], ["hang"], ["ok", ["10.1.0.1"], 8]):
            base = {**sc, "addresses": ["a.example.com"], "dns": {"a.example.com": d}}
            yield {**base, "events": []}
            for ev in ({"do": "disconnect", "at": 4}, {"do": "force", "at": 4}, {"do": "cancel", "at": 4}, {"do": "cancel", "it": 3}, {"do": "force", "it": 4}):
                yield {**base, "events": [ev]}


# ===========================================================================
# enumerated sweeps (finite sub-domains)
# ===========================================================================
SWEEP_CAUSES: list[dict] = (
    [{"do": a} for a in ("disconnect", "force", "cancel", "eof", "reset", "reset_etimedout", "lost_raw", "writefail_raise", "writefail_fatal", "writefail_raise_rt", "reuse_start", "reuse_finish")]
    + [{"do": "chunk", "frames": f} for f in (["discreq"], ["garbage"], ["reqenc"], ["badproto"], ["badmac"], ["unknown"], ["badstate"], ["state", "badstate", "state2"])]
    + [{"do": "chunk", "frames": f} for f in (["discreq", "state"], ["discreq", "ping"], ["discreq", "discreq"], ["garbage", "state"], ["state", "discreq", "state2"], ["badproto", "state"])]
)


def golden_scenarios() -> list[dict]:
    out = []
    for noise in (False, True):
        for login in (False, True):
            for flow in ("connect", "full", "full+disconnect"):
                out.append({"noise": noise, "login": login, "flow": flow, "K": 8.0, "events": [], "final_at": 200.0})
    out.append({"noise": False, "login": True, "flow": "full", "K": 8.0, "split": 1, "gap": 2, "events": [], "final_at": 200.0})
    out.append({"noise": True, "login": False, "flow": "connect", "K": 8.0, "split": 1, "gap": 1, "events": [], "final_at": 200.0})
    return out


_GOLDEN_ITERS: dict[str, int] = {}


def golden_iterations(sc: dict) -> int:
    """Loop iterations of the scenario until its main flow is over (+3), measured by running it."""
    import json

    key = json.dumps(sc, sort_keys=True)
    if key not in _GOLDEN_ITERS:
        obs = run(sc, count_only=True)
        end = [e["it"] for e in obs.trace if e["kind"] == "op_end" and e["op"] == "main"]
        _GOLDEN_ITERS[key] = (end[0] if end else obs.iterations) + 3
    return _GOLDEN_ITERS[key]


def single_fault_sweep(scenarios: list[dict] | None = None, causes: list[dict] | None = None):
    """Every cause injected at the start of every loop iteration of every golden scenario."""
    for sc in scenarios or golden_scenarios():
        n = golden_iterations(sc)
        for k in range(1, n + 1):
            for cause in causes or SWEEP_CAUSES:
                yield {**sc, "events": [{**cause, "it": k}]}
                yield {**sc, "events": [{**cause, "ite": k}]}


def pair_fault_sweep(sc: dict, causes: list[dict]):
    n = golden_iterations(sc)
    for k1 in range(1, n + 1):
        for k2 in range(k1, n + 1):
            for c1 in causes:
                for c2 in causes:
                    yield {**sc, "events": [{**c1, "it": k1}, {**c2, "it": k2}]}


def slow_hello_disconnect_sweep():
    """disconnect() during a slow hello gives up waiting for the connect (5 s, records its timeout) and goes on to its
    DisconnectRequest exchange; the link is lost during that exchange / the device answers after all and the
    disconnect caller gives up, then the link is lost."""
    for noise in (False, True):
        for login in (False, True):
            # hello answered after 6.25 s -- the disconnect has given up waiting for the connect and recorded its
            # timeout -- with the link lost / fatal bytes right behind the answer, in the same loop turn
            for ht in ("eof", "reset"):
                yield {"noise": noise, "login": login, "flow": "connect", "K": 8.0, "final_at": 400.0, "latency": 400, "hello_then": ht, "events": [{"do": "disconnect", "at": 30}]}
            for extra in (["garbage"], ["badproto"], ["state", "garbage"]):
                yield {"noise": noise, "login": login, "flow": "connect", "K": 8.0, "final_at": 400.0, "latency": 400, "hello_extra": extra, "events": [{"do": "disconnect", "at": 30}]}
            for c2 in ({"do": "eof"}, {"do": "reset"}, {"do": "chunk", "frames": ["garbage"]}, {"do": "writefail_raise"}):
                # hello never answered (latency 30 s): lost 2 s into the DisconnectResponse wait
                yield {"noise": noise, "login": login, "flow": "connect", "K": 8.0, "final_at": 400.0, "latency": 64 * 30,
                       "events": [{"do": "disconnect", "at": 30}, {**c2, "at": 256 * 7}, {"do": "chunk", "frames": ["ping"], "at": 256 * 7 + 8}]}
                # hello answered after 6.25 s, disconnect caller cancelled, then lost
                yield {"noise": noise, "login": login, "flow": "connect", "K": 8.0, "final_at": 400.0, "latency": 400,
                       "events": [{"do": "disconnect", "at": 30}, {"do": "cancel_disc", "at": 256 * (7 if not login else 14)}, {**c2, "at": 256 * (8 if not login else 15)}, {"do": "chunk", "frames": ["ping"], "at": 256 * 16}]}


def stall_sweep(scenarios: list[dict] | None = None):
    """The peer stops reading at iteration k (writes queue up in the transport; a close then cannot flush), and a
    close cause follows 0..3 iterations later."""
    causes = [{"do": "chunk", "frames": ["discreq"]}, {"do": "chunk", "frames": ["discreq", "state"]}, {"do": "force"}, {"do": "disconnect"},
              {"do": "eof"}, {"do": "reset"}, {"do": "chunk", "frames": ["garbage"]}, {"do": "cancel"}]
    for sc in scenarios or golden_scenarios():
        n = golden_iterations(sc)
        for k in range(2, n + 1):
            yield {**sc, "events": [{"do": "stall", "it": k, "for": 6000}]}
            for dk in (0, 1, 2, 3):
                for c in causes:
                    yield {**sc, "events": [{"do": "stall", "it": k, "for": 6000}, {**c, "it": k + dk}]}


def hello_trailer_sweep():
    """Device answers the hello with extra frames in the same chunk / split chunks."""
    trailers = [[f] for f in sorted(CLOSING_FRAMES)] + [
        ["discreq", "state"], ["state", "discreq"], ["ping", "discreq"], ["garbage", "state"], ["discreq", "discreq"],
        ["state"], ["ping"], ["unknown"], ["gettime"],
    ]
    for noise in (False, True):
        for login in (False, True):
            for flow in ("connect", "full"):
                for tr in trailers:
                    for cuts in (None, [0], [3], [14], [16], [17], [20]):
                        c = {"noise": noise, "login": login, "flow": flow, "K": 8.0, "hello_extra": tr, "events": [], "final_at": 200.0}
                        if cuts:
                            c["hello_cuts"] = cuts
                        yield c
                        if cuts is None or cuts == [16]:
                            # ... while the peer has stopped reading (the client's answer / close cannot be flushed)
                            for at in (17, 18, 19):
                                yield {**c, "events": [{"do": "stall", "at": at, "for": 6000}]}
