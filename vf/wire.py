"""Independent wire codec, written from the protocol description in api.proto
(lines 70-85 of the pinned tree) – shares no code with aioesphomeapi._frame_helper.

Plaintext frame:  0x00 · varint(payload length) · varint(message type) · payload
Noise frame:      0x01 · BE16(length) · body
"""
from __future__ import annotations

import os
import re
from typing import Iterator

REPO = os.environ.get("VERIF_REPO", "/repo")


# ------------------------------------------------------------------ varints
def enc_varint(n: int) -> bytes:
    if n < 0:
        raise ValueError("negative varint")
    out = bytearray()
    while True:
        b = n & 0x7F
        n >>= 7
        if n:
            out.append(b | 0x80)
        else:
            out.append(b)
            return bytes(out)


def dec_varint(buf: bytes, i: int) -> tuple[int, int, bool] | None:
    """-> (value, next index, minimal?) or None when the buffer ends first."""
    shift = 0
    val = 0
    start = i
    while i < len(buf):
        b = buf[i]
        i += 1
        val |= (b & 0x7F) << shift
        shift += 7
        if not b & 0x80:
            minimal = (i - start) == len(enc_varint(val))
            return val, i, minimal
    return None


# ------------------------------------------------------------ plaintext
def enc_plain(msg_type: int, payload: bytes) -> bytes:
    return b"\x00" + enc_varint(len(payload)) + enc_varint(msg_type) + payload


def header_len_plain(msg_type: int, payload_len: int) -> int:
    return 1 + len(enc_varint(payload_len)) + len(enc_varint(msg_type))


class PlainParseError(Exception):
    pass


def parse_plain_stream(buf: bytes, require_minimal: bool = True) -> tuple[list[tuple[int, bytes, int]], int]:
    """Reference streaming parser.

    -> ([(type, payload, index one past the frame's last byte)], index where the
    incomplete trailing frame starts (== len(buf) when none)).
    Raises PlainParseError on a malformed preamble / non-minimal varint.
    """
    out: list[tuple[int, bytes, int]] = []
    i = 0
    n = len(buf)
    while i < n:
        start = i
        if buf[i] != 0:
            raise PlainParseError(f"bad preamble 0x{buf[i]:02x} at {i}")
        i += 1
        r = dec_varint(buf, i)
        if r is None:
            return out, start
        length, i, m1 = r
        r = dec_varint(buf, i)
        if r is None:
            return out, start
        mtype, i, m2 = r
        if require_minimal and not (m1 and m2):
            raise PlainParseError(f"non-minimal varint in frame at {start}")
        if i + length > n:
            return out, start
        out.append((mtype, bytes(buf[i : i + length]), i + length))
        i += length
    return out, i


# ---------------------------------------------------------------- noise outer
def enc_noise_outer(body: bytes) -> bytes:
    if len(body) > 0xFFFF:
        raise ValueError("noise frame too long")
    return b"\x01" + len(body).to_bytes(2, "big") + body


def parse_noise_outer(buf: bytes) -> tuple[list[tuple[bytes, int]], int]:
    """-> ([(body, end index)], start of trailing partial frame). Raises on marker."""
    out = []
    i = 0
    n = len(buf)
    while i < n:
        if buf[i] != 1:
            raise PlainParseError(f"bad noise marker 0x{buf[i]:02x} at {i}")
        if i + 3 > n:
            return out, i
        ln = int.from_bytes(buf[i + 1 : i + 3], "big")
        if i + 3 + ln > n:
            return out, i
        out.append((bytes(buf[i + 3 : i + 3 + ln]), i + 3 + ln))
        i += 3 + ln
    return out, i


def enc_noise_inner(msg_type: int, payload: bytes) -> bytes:
    return msg_type.to_bytes(2, "big") + len(payload).to_bytes(2, "big") + payload


def dec_noise_inner(pt: bytes) -> tuple[int, int, bytes]:
    if len(pt) < 4:
        raise PlainParseError("inner frame shorter than its header")
    return int.from_bytes(pt[0:2], "big"), int.from_bytes(pt[2:4], "big"), pt[4:]


# ------------------------------------------------- message ids, independent views
_MSG_RE = re.compile(r"^message\s+(\w+)\s*\{(.*?)^\}", re.S | re.M)
_ENUM_RE = re.compile(r"^enum\s+(\w+)\s*\{(.*?)^\}", re.S | re.M)


def _strip_comments(text: str) -> str:
    text = re.sub(r"/\*.*?\*/", "", text, flags=re.S)
    return re.sub(r"//[^\n]*", "", text)


def parse_proto_text(path: str | None = None) -> dict:
    """Regex view of api.proto: messages (id, source, fields) and enums."""
    path = path or os.path.join(REPO, "aioesphomeapi", "api.proto")
    with open(path) as f:
        text = _strip_comments(f.read())
    msgs: dict[str, dict] = {}
    for m in _MSG_RE.finditer(text):
        name, body = m.group(1), m.group(2)
        mid = re.search(r"option\s*\(\s*id\s*\)\s*=\s*(\d+)\s*;", body)
        src = re.search(r"option\s*\(\s*source\s*\)\s*=\s*(\w+)\s*;", body)
        fields = {}
        for fm in re.finditer(
            r"^\s*(repeated\s+)?([\w.]+)\s+(\w+)\s*=\s*(\d+)\s*(\[[^\]]*\])?\s*;", body, re.M
        ):
            rep, ftype, fname, fnum = fm.group(1), fm.group(2), fm.group(3), int(fm.group(4))
            if ftype == "option":
                continue
            fields[fname] = {"number": fnum, "type": ftype, "repeated": bool(rep)}
        msgs[name] = {
            "id": int(mid.group(1)) if mid else None,
            "source": src.group(1) if src else "SOURCE_BOTH",
            "fields": fields,
        }
    enums: dict[str, dict[str, int]] = {}
    for m in _ENUM_RE.finditer(text):
        vals = {}
        for vm in re.finditer(r"^\s*(\w+)\s*=\s*(-?\d+)\s*;", m.group(2), re.M):
            vals[vm.group(1)] = int(vm.group(2))
        enums[m.group(1)] = vals
    return {"messages": msgs, "enums": enums}


def descriptor_ids() -> dict[int, type]:
    """id -> message class, from the (id) option of the compiled descriptors."""
    from aioesphomeapi import api_options_pb2, api_pb2

    out: dict[int, type] = {}
    for name, desc in api_pb2.DESCRIPTOR.message_types_by_name.items():
        opts = desc.GetOptions()
        if opts.HasExtension(api_options_pb2.id):
            mid = opts.Extensions[api_options_pb2.id]
            if mid:
                if mid in out:
                    raise ValueError(f"duplicate id {mid} in descriptors")
                out[mid] = getattr(api_pb2, name)
    return out


def descriptor_sources() -> dict[str, int]:
    """message name -> APISourceType number (0 BOTH, 1 SERVER, 2 CLIENT)."""
    from aioesphomeapi import api_options_pb2, api_pb2

    out = {}
    for name, desc in api_pb2.DESCRIPTOR.message_types_by_name.items():
        opts = desc.GetOptions()
        out[name] = opts.Extensions[api_options_pb2.source] if opts.HasExtension(api_options_pb2.source) else 0
    return out


_ID_CACHE: dict | None = None


def ids() -> tuple[dict[int, type], dict[type, int]]:
    global _ID_CACHE
    if _ID_CACHE is None:
        by_id = descriptor_ids()
        _ID_CACHE = (by_id, {v: k for k, v in by_id.items()})
    return _ID_CACHE  # type: ignore[return-value]


def frame_msg(msg) -> bytes:
    """Plaintext frame for a protobuf message (id from the descriptor option)."""
    return enc_plain(ids()[1][type(msg)], msg.SerializeToString())


def iter_cut(buf: bytes, cuts: list[int]) -> Iterator[bytes]:
    prev = 0
    for c in cuts:
        yield buf[prev:c]
        prev = c
    yield buf[prev:]
