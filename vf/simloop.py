"""SimLoop – a stock asyncio SelectorEventLoop whose clock and I/O the harness owns.

* `time()` is a virtual clock; `select()` never sleeps: it jumps the clock to the
  earlier of the next loop timer and the next *sim event* and moves every due
  sim event into the ready queue (before same-time timers – the position real
  asyncio gives I/O callbacks).
* `_run_once` is the unmodified CPython implementation, so ready-queue order,
  call_soon/call_at semantics, tasks, eager tasks, asyncio.timeout, locks are
  the production ones.
* `inject_at_iteration(k, fn)`: run fn at the *start* of loop iteration k,
  before the handles that are already ready.
* quiescence detector: nothing ready, no timer, no sim event -> stop().
"""
from __future__ import annotations

import asyncio
import heapq
import itertools
import selectors

START = 1024.0  # virtual epoch (dyadic, so t+delay stays exact for dyadic delays)


class IterationCap(Exception):
    """Harness guard: a case ran into the iteration cap (never a violation)."""


class VSelector(selectors.BaseSelector):
    def __init__(self) -> None:
        self._map: dict = {}
        self.loop: "SimLoop | None" = None

    def register(self, fileobj, events, data=None):
        fd = fileobj if isinstance(fileobj, int) else fileobj.fileno()
        key = selectors.SelectorKey(fileobj, fd, events, data)
        self._map[fileobj] = key
        return key

    def unregister(self, fileobj):
        return self._map.pop(fileobj)

    def modify(self, fileobj, events, data=None):
        self.unregister(fileobj)
        return self.register(fileobj, events, data)

    def get_map(self):
        return self._map

    def select(self, timeout=None):
        return self.loop._vselect(timeout)  # type: ignore[union-attr]


class SimLoop(asyncio.SelectorEventLoop):
    def __init__(self, max_iterations: int = 200_000) -> None:
        sel = VSelector()
        super().__init__(sel)
        sel.loop = self
        self._vnow = START
        self._simq: list = []
        self._simseq = itertools.count()
        self._clock_resolution = 1e-6
        self.iterations = 0  # number of _run_once calls
        self.max_iterations = max_iterations
        self.quiescent = False
        self.stop_on_quiescence = True
        self._inject: dict[int, list] = {}
        self.on_iteration = None  # optional callable(iteration) at iteration start
        self.errors: list[dict] = []
        self.set_exception_handler(self._record_error)
        self.horizon: float | None = None  # absolute virtual time after which the loop stops

    # ------------------------------------------------------------ clock
    def time(self) -> float:
        return self._vnow

    def now(self) -> float:
        """Virtual seconds since the epoch of this loop."""
        return self._vnow - START

    # ------------------------------------------------------------ sim events
    def sim_at(self, when_rel: float, fn, *args) -> None:
        """Schedule fn(*args) as an I/O-like event at virtual time START+when_rel."""
        when = START + when_rel
        if when < self._vnow:
            when = self._vnow
        heapq.heappush(self._simq, (when, next(self._simseq), fn, args))

    def sim_after(self, delay: float, fn, *args) -> None:
        heapq.heappush(self._simq, (self._vnow + delay, next(self._simseq), fn, args))

    def inject_at_iteration(self, k: int, fn) -> None:
        self._inject.setdefault(k, []).append(fn)

    # ------------------------------------------------------------ loop core
    def _run_once(self) -> None:
        self.iterations += 1
        if self.iterations > self.max_iterations:
            self.stop()
            raise IterationCap(f"iteration cap {self.max_iterations} hit at t={self.now()}")
        fns = self._inject.pop(self.iterations, None)
        if fns:
            for fn in fns:
                fn()
        if self.on_iteration is not None:
            self.on_iteration(self.iterations)
        super()._run_once()

    def _vselect(self, timeout):
        nxt = self._simq[0][0] if self._simq else None
        if timeout is None:
            # nothing ready and no timer armed
            if nxt is None:
                if self.stop_on_quiescence:
                    self.quiescent = True
                    self.stop()
                return []
            if self.horizon is not None and nxt > self.horizon:
                self._vnow = self.horizon
                self.stop()
                return []
            if nxt > self._vnow:
                self._vnow = nxt
        elif timeout > 0:
            tw = self._scheduled[0]._when if self._scheduled else self._vnow + timeout
            target = tw if nxt is None else min(tw, nxt)
            if self.horizon is not None and target > self.horizon:
                self._vnow = self.horizon
                self.stop()
                return []
            if target > self._vnow:
                self._vnow = target
        while self._simq and self._simq[0][0] <= self._vnow:
            _, _, fn, args = heapq.heappop(self._simq)
            self.call_soon(fn, *args)
        return []

    def _record_error(self, loop, context) -> None:
        self.errors.append(context)

    # ------------------------------------------------------------ audit helpers
    def armed_timers(self) -> list:
        return [h for h in self._scheduled if not h.cancelled()]

    def pending_tasks(self) -> list:
        return [t for t in asyncio.all_tasks(self) if not t.done()]

    def run_until_quiescent(self) -> None:
        self.quiescent = False
        self.run_forever()

    def dispose(self) -> None:
        """Cancel whatever is left and close the loop (end of a case)."""
        try:
            for t in self.pending_tasks():
                t.cancel()
            self._simq.clear()
            self._inject.clear()
            self.horizon = None
            if self.pending_tasks():
                self.stop_on_quiescence = True
                try:
                    self.run_forever()
                except BaseException:  # noqa: BLE001
                    pass
        finally:
            try:
                self.close()
            except BaseException:  # noqa: BLE001
                pass
