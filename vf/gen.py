"""Shared Hypothesis strategies and case helpers (JSON-able cases)."""
from __future__ import annotations

from hypothesis import strategies as st

BOUNDARY_LENS = [0, 1, 2, 126, 127, 128, 129, 255, 256, 16383, 16384, 16385]
BIG_LENS = [65515, 65535, 65536, 70001]
BOUNDARY_TYPES = [0, 1, 2, 127, 128, 129, 255, 256, 16383, 16384, 65535, 65536, 2**21, 2**28, 2**35]


def payload_bytes(spec: dict) -> bytes:
    """payload spec {"h": hex, "pad": [byte, count]} -> bytes"""
    b = bytes.fromhex(spec.get("h", ""))
    pad = spec.get("pad")
    if pad:
        b += bytes([pad[0]]) * pad[1]
    return b


@st.composite
def payload_spec(draw, max_len: int = 70001, big_prob: bool = True):
    head = draw(
        st.one_of(
            st.binary(max_size=12),
            st.binary(max_size=40),
            st.lists(st.sampled_from([0x00, 0x01, 0x80, 0xFF, 0x7F]), max_size=12).map(bytes),
        )
    )
    spec = {"h": head.hex()}
    choice = draw(st.integers(0, 9))
    if choice >= 6:
        if choice == 9 and big_prob:
            target = draw(st.sampled_from(BOUNDARY_LENS[9:] + BIG_LENS + [300, 1000, 4096]))
        else:
            target = draw(st.sampled_from(BOUNDARY_LENS[:9] + [300, 1000]))
        target = min(target, max_len)
        if target > len(head):
            spec["pad"] = [draw(st.sampled_from([0, 1, 0x80, 0xFF, 0x41])), target - len(head)]
        else:
            spec["h"] = head[:target].hex()
    elif len(head) > max_len:
        spec["h"] = head[:max_len].hex()
    return spec


def msg_type_ids(max_id: int = 2**35, registered: list[int] | None = None):
    regs = registered or list(range(1, 124))
    return st.one_of(
        st.sampled_from(regs),
        st.sampled_from([t for t in BOUNDARY_TYPES if t <= max_id]),
        st.integers(0, min(max_id, 70000)),
    )


@st.composite
def cuts_for(draw, total: int, interesting: list[int], max_cuts: int = 12):
    """Sorted cut offsets in [0,total]; duplicates make empty chunks."""
    if total == 0:
        return []
    mode = draw(st.integers(0, 9))
    if mode == 0:
        return []
    if mode == 1 and total <= 400:
        return list(range(1, total))  # byte at a time
    pool = sorted({x for x in interesting if 0 <= x <= total})
    elems = st.integers(0, total)
    if pool:
        elems = st.one_of(st.sampled_from(pool), st.sampled_from(pool), elems)
    cuts = draw(st.lists(elems, min_size=1, max_size=max_cuts))
    return sorted(cuts)


def chunk_kinds():
    return st.lists(st.sampled_from([0, 1, 2, 3, 4, 5, 0, 1, 2, 3]), min_size=1, max_size=6)
