"""Generic check runner: tiers, seeds, Hypothesis driving, sharding, evidence,
known findings, replay files.

A property module (vf/props/cNN.py) exposes

    ID, LEVEL, RULE, ASSUMPTIONS
    run_case(case: dict) -> CaseResult          pure function of the case
    strategy(tier) -> hypothesis strategy       builds JSON-able case dicts
    enumerated(tier) -> iterable of case dicts  (optional; finite sub-domains)
    BUDGET = {"quick": {...}, "thorough": {...}} with keys
        examples  – Hypothesis cases per shard
        shards    – number of processes
    FLOORS = {class_name: min_fraction}         (optional, development gate)
    post_run(stats, tier) -> None               (optional; aggregate checks)

Exit codes: 0 held, 1 violation (VIOLATION line printed), 2 harness error.
"""
from __future__ import annotations

import argparse
import hashlib
import importlib
import json
import multiprocessing as mp
import os
import sys
import time
import traceback
from dataclasses import dataclass, field
from typing import Any, Callable, Iterable

ROOT = os.path.dirname(os.path.dirname(os.path.abspath(__file__)))
REPO = os.environ.get("VERIF_REPO", "/repo")
# scratch runs (mutation testing) redirect evidence + found replays so that the
# committed evidence is only ever written by a run against /repo itself
OUT = os.environ.get("VERIF_OUT", ROOT)


# --------------------------------------------------------------------------
# data types
# --------------------------------------------------------------------------
@dataclass
class Violation:
    prop: str
    signature: str  # stable, minimal description of what failed
    detail: str = ""

    def to_json(self) -> dict:
        return {"property": self.prop, "signature": self.signature, "detail": self.detail[:2000]}


@dataclass
class CaseResult:
    violations: list[Violation] = field(default_factory=list)
    nontrivial: bool = False
    classes: list[str] = field(default_factory=list)
    info: dict = field(default_factory=dict)  # free-form, shown in samples


class HarnessError(Exception):
    """Something went wrong in the harness itself (never a violation)."""


class _PropertyFailed(Exception):
    def __init__(self, violation: Violation):
        super().__init__(violation.signature)
        self.violation = violation


# --------------------------------------------------------------------------
# helpers
# --------------------------------------------------------------------------
def canon(case: Any) -> str:
    return json.dumps(case, sort_keys=True, separators=(",", ":"), default=_json_default)


def _json_default(o: Any) -> Any:
    if isinstance(o, (bytes, bytearray, memoryview)):
        return {"__hex__": bytes(o).hex()}
    if isinstance(o, (set, frozenset)):
        return sorted(o)
    if isinstance(o, tuple):
        return list(o)
    raise TypeError(f"not JSON-able: {type(o)}")


def case_hash(case: Any) -> str:
    return hashlib.sha256(canon(case).encode()).hexdigest()


def shrink_for_sample(case: Any, limit: int = 1500) -> Any:
    """Samples are written to evidence; keep them readable."""
    s = canon(case)
    if len(s) <= limit:
        return json.loads(s)
    return {"truncated_case": s[:limit] + "...", "full_len": len(s)}


def load_known_findings() -> list[dict]:
    path = os.path.join(ROOT, "known_findings.json")
    if not os.path.exists(path):
        return []
    with open(path) as f:
        return json.load(f)["findings"]


def known_index(prop_id: str) -> dict[str, dict]:
    """signature -> entry, only entries that suppress (status == known)."""
    return {
        e["signature"]: e
        for e in load_known_findings()
        if e["property"] == prop_id and e.get("status") == "known"
    }


def repo_frame_of(exc: BaseException) -> str | None:
    """Innermost traceback frame that lies in the code under test."""
    tb = traceback.extract_tb(exc.__traceback__)
    for fr in reversed(tb):
        if "/aioesphomeapi/" in fr.filename and "/verif/" not in fr.filename:
            return f"{os.path.basename(fr.filename)}:{fr.name}"
    return None


def assert_code_under_test() -> None:
    sys.path.insert(0, REPO)
    import aioesphomeapi
    import aioesphomeapi._frame_helper.base as b
    import aioesphomeapi._frame_helper.noise as n
    import aioesphomeapi._frame_helper.plain_text as p
    import aioesphomeapi.client_callbacks as cc
    import aioesphomeapi.connection as c

    real = os.path.realpath(REPO)
    for m in (aioesphomeapi, b, n, p, cc, c):
        f = os.path.realpath(m.__file__)
        if not f.startswith(real + os.sep):
            raise HarnessError(f"{m.__name__} loaded from {f}, not from {real}")
        if not f.endswith(".py"):
            raise HarnessError(f"{m.__name__} is a compiled build ({f}); pure-Python tree expected")


# --------------------------------------------------------------------------
# statistics collected per shard, mergeable
# --------------------------------------------------------------------------
class Stats:
    def __init__(self) -> None:
        self.evaluations = 0
        self.nontrivial_hashes: set[bytes] = set()
        self.all_hashes: set[bytes] = set()
        self.classes: dict[str, int] = {}
        self.known_hits: dict[str, int] = {}
        self.samples: list[Any] = []
        self.nt_samples: list[Any] = []
        self.enumerated = 0
        self.extra: dict[str, Any] = {}

    def record(self, case: Any, res: CaseResult, origin: str) -> None:
        self.evaluations += 1
        h = hashlib.blake2b(canon(case).encode(), digest_size=8).digest()
        self.all_hashes.add(h)
        if res.nontrivial:
            if h not in self.nontrivial_hashes and len(self.nt_samples) < 4:
                self.nt_samples.append({"origin": origin, "case": shrink_for_sample(case), "info": res.info})
            self.nontrivial_hashes.add(h)
        elif len(self.samples) < 1:
            self.samples.append({"origin": origin, "case": shrink_for_sample(case), "info": res.info})
        for c in res.classes:
            self.classes[c] = self.classes.get(c, 0) + 1
        if origin == "enumerated":
            self.enumerated += 1

    def merge(self, other: "Stats") -> None:
        self.evaluations += other.evaluations
        self.nontrivial_hashes |= other.nontrivial_hashes
        self.all_hashes |= other.all_hashes
        for k, v in other.classes.items():
            self.classes[k] = self.classes.get(k, 0) + v
        for k, v in other.known_hits.items():
            self.known_hits[k] = self.known_hits.get(k, 0) + v
        self.samples = (self.samples + other.samples)[:2]
        self.nt_samples = (self.nt_samples + other.nt_samples)[:5]
        self.enumerated += other.enumerated
        for k, v in other.extra.items():
            if isinstance(v, (int, float)) and isinstance(self.extra.get(k, 0), (int, float)):
                self.extra[k] = self.extra.get(k, 0) + v
            elif isinstance(v, list):
                self.extra[k] = (self.extra.get(k, []) + v)[:50]
            elif isinstance(v, dict):
                d = self.extra.setdefault(k, {})
                for kk, vv in v.items():
                    if isinstance(vv, (int, float)):
                        d[kk] = d.get(kk, 0) + vv
                    else:
                        d.setdefault(kk, vv)
            else:
                self.extra.setdefault(k, v)


@dataclass
class ShardOutcome:
    stats: Stats
    failure: tuple[Any, Violation] | None = None  # (case, violation)
    harness_error: str | None = None


# --------------------------------------------------------------------------
# running cases
# --------------------------------------------------------------------------
def set_debug_logging(on: bool) -> None:
    """Debug logging is a configuration every property quantifies over implicitly: a case with
    "debug": true runs with the package's loggers at DEBUG (APIClient then passes debug_enabled=True down to
    the connection and the frame helpers) and with a handler that formats every record like a real one."""
    import logging

    lg = logging.getLogger("aioesphomeapi")
    if on and not any(getattr(h, "_vf_fmt", False) for h in lg.handlers):

        class Fmt(logging.Handler):
            _vf_fmt = True

            def emit(self, record):  # format like a real handler, then drop
                record.getMessage()

            def handleError(self, record):  # a formatting failure is the logging module's business, not an oracle
                pass

        lg.addHandler(Fmt())
    lg.setLevel(logging.DEBUG if on else logging.CRITICAL)


def with_debug(strategy):
    """Wrap a module's case strategy: about one case in five runs with debug logging enabled."""
    from hypothesis import strategies as st

    @st.composite
    def _s(draw):
        case = draw(strategy)
        if isinstance(case, dict) and "debug" not in case and draw(st.integers(0, 9)) in (3, 7):
            case = {**case, "debug": True}
        return case

    return _s()


def evaluate(mod: Any, case: Any, known: dict[str, dict], stats: Stats | None, origin: str) -> Violation | None:
    """Run one case; return the first violation not listed as known."""
    debug = isinstance(case, dict) and bool(case.get("debug"))
    set_debug_logging(debug)
    try:
        res: CaseResult = mod.run_case(case)
    except HarnessError:
        raise
    except BaseException as e:  # noqa: BLE001
        if isinstance(e, (KeyboardInterrupt, SystemExit)):
            raise
        fr = repo_frame_of(e)
        if fr is None:
            raise HarnessError(
                f"exception inside harness for case {canon(case)[:400]}:\n" + "".join(traceback.format_exception(e))
            ) from e
        res = CaseResult(
            violations=[
                Violation(
                    mod.ID,
                    f"crash:{type(e).__name__}@{fr}",
                    "".join(traceback.format_exception(e))[-1500:],
                )
            ],
            nontrivial=True,
        )
    if debug:
        set_debug_logging(False)
        res.classes = sorted(set(res.classes) | {"debug_logging"})
    if stats is not None:
        stats.record(case, res, origin)
    first = None
    for v in res.violations:
        if v.signature in known:
            if stats is not None:
                stats.known_hits[v.signature] = stats.known_hits.get(v.signature, 0) + 1
            continue
        if first is None:
            first = v
    return first


def shard_seed(seed: int, shard: int) -> int:
    return int.from_bytes(hashlib.sha256(f"{seed}:{shard}".encode()).digest()[:6], "big")


def run_shard(args: tuple) -> ShardOutcome:
    mod_name, tier, seed, shard, nshards, examples = args
    stats = Stats()
    try:
        assert_code_under_test()
        mod = importlib.import_module(mod_name)
        known = known_index(mod.ID)
        if hasattr(mod, "shard_init"):
            mod.shard_init(tier)

        # 1. committed regression cases + enumerated sub-domain, split across shards
        fixed: list[tuple[str, Any]] = []
        if shard == 0:
            for path, case in load_regress(mod.ID):
                fixed.append(("regress:" + os.path.basename(path), case))
        if hasattr(mod, "enumerated"):
            for i, case in enumerate(mod.enumerated(tier)):
                if i % nshards == shard:
                    fixed.append(("enumerated", case))
                    if isinstance(case, dict) and "debug" not in case and (i // nshards) % 5 == 2:
                        fixed.append(("enumerated", {**case, "debug": True}))
        for origin, case in fixed:
            v = evaluate(mod, case, known, stats, origin)
            if v is not None:
                return ShardOutcome(stats, failure=(case, v))

        # 2. generated cases
        if examples > 0 and hasattr(mod, "strategy"):
            out = hypothesis_search(mod, tier, shard_seed(seed, shard), examples, known, stats)
            if out is not None:
                return ShardOutcome(stats, failure=out)
        if hasattr(mod, "shard_finish"):
            mod.shard_finish(stats, tier)
        return ShardOutcome(stats)
    except HarnessError as e:
        return ShardOutcome(stats, harness_error=str(e))
    except BaseException as e:  # noqa: BLE001
        return ShardOutcome(stats, harness_error="".join(traceback.format_exception(e)))


def hypothesis_search(mod, tier, hseed, examples, known, stats) -> tuple[Any, Violation] | None:
    import hypothesis
    from hypothesis import HealthCheck, Phase, given, settings

    last_fail: list[tuple[Any, Violation]] = []
    shrink = os.environ.get("VERIF_NO_SHRINK") != "1"
    phases = [Phase.generate, Phase.shrink] if shrink else [Phase.generate]
    counting = [True]

    @hypothesis.seed(hseed)
    @settings(
        max_examples=examples,
        database=None,
        deadline=None,
        derandomize=False,
        report_multiple_bugs=False,
        phases=phases,
        suppress_health_check=list(HealthCheck),
        print_blob=False,
        verbosity=hypothesis.Verbosity.quiet,
    )
    @given(with_debug(mod.strategy(tier)))
    def prop(case):
        v = evaluate(mod, case, known, stats if counting[0] else None, "generated")
        if v is not None:
            counting[0] = False  # shrink-phase evaluations are not generated coverage
            last_fail.append((case, v))
            raise _PropertyFailed(v)

    try:
        prop()
    except _PropertyFailed:
        # Hypothesis re-raises the minimal example last
        case, v = last_fail[-1]
        return json.loads(canon(case)), v
    except HarnessError:
        raise
    except BaseException as e:  # noqa: BLE001
        if isinstance(e, (KeyboardInterrupt, SystemExit)):
            raise
        if last_fail:  # flaky / shrinking trouble: still report the smallest failure seen
            case, v = min(last_fail, key=lambda cv: len(canon(cv[0])))
            return json.loads(canon(case)), v
        raise HarnessError("hypothesis failure: " + "".join(traceback.format_exception(e))) from e
    return None


def load_regress(prop_id: str) -> list[tuple[str, Any]]:
    d = os.path.join(ROOT, "replays", prop_id)
    out = []
    if os.path.isdir(d):
        for name in sorted(os.listdir(d)):
            if name.startswith("regress-") and name.endswith(".json"):
                with open(os.path.join(d, name)) as f:
                    out.append((os.path.join(d, name), json.load(f)["case"]))
    return out


def write_replay(prop_id: str, case: Any, v: Violation) -> str:
    d = os.path.join(OUT, "replays", prop_id)
    os.makedirs(d, exist_ok=True)
    path = os.path.join(d, f"found-{case_hash(case)[:12]}.json")
    with open(path, "w") as f:
        json.dump({"property": prop_id, "violation": v.to_json(), "case": json.loads(canon(case))}, f, indent=1)
    return path


# --------------------------------------------------------------------------
# evidence
# --------------------------------------------------------------------------
def validate_evidence(ev: dict) -> None:
    for k in ("property_id", "tier", "seed", "level", "coverage", "wall_s"):
        if k not in ev:
            raise HarnessError(f"evidence missing {k}")
    cov = ev["coverage"]
    for k in ("evaluations", "distinct_nontrivial", "rule", "samples"):
        if k not in cov:
            raise HarnessError(f"evidence.coverage missing {k}")
    if cov["evaluations"] < 1 or not cov["samples"]:
        raise HarnessError("evidence: no evaluations / samples")
    try:
        import jsonschema  # optional

        with open("/root/.vp/EVIDENCE.schema.json") as f:
            jsonschema.validate(ev, json.load(f))
    except ImportError:
        pass
    except FileNotFoundError:
        pass
    except Exception as e:  # noqa: BLE001
        raise HarnessError(f"evidence does not validate: {e}") from e


def write_evidence(mod, tier: str, seed: int, stats: Stats, wall: float, violations: int, warnings: list[str], validate: bool = True) -> str:
    cov = {
        "evaluations": stats.evaluations,
        "distinct_cases": len(stats.all_hashes),
        "distinct_nontrivial": len(stats.nontrivial_hashes),
        "rule": mod.RULE,
        "samples": stats.nt_samples + stats.samples,
        "enumerated_cases": stats.enumerated,
        "class_histogram": dict(sorted(stats.classes.items())),
        "known_hits": stats.known_hits,
        "generator_warnings": warnings,
    }
    if getattr(mod, "EXHAUSTIVE_NOTE", None):
        cov["exhaustive_subdomain"] = mod.EXHAUSTIVE_NOTE
    cov.update(stats.extra)
    ev = {
        "property_id": mod.ID,
        "tier": tier,
        "seed": seed,
        "level": mod.LEVEL,
        "coverage": cov,
        "assumptions": list(getattr(mod, "ASSUMPTIONS", [])),
        "wall_s": round(wall, 3),
        "violations": violations,
    }
    ev = json.loads(json.dumps(ev, default=_json_default))
    if validate:  # a run that stops at an early violation may not have explored enough to validate
        validate_evidence(ev)
    os.makedirs(os.path.join(OUT, "evidence"), exist_ok=True)
    path = os.path.join(OUT, "evidence", f"{mod.ID}.json")
    tmp = path + ".tmp"
    with open(tmp, "w") as f:
        json.dump(ev, f, indent=1, sort_keys=True)
    os.replace(tmp, path)
    return path


# --------------------------------------------------------------------------
# main
# --------------------------------------------------------------------------
def main(argv: list[str] | None = None) -> int:
    ap = argparse.ArgumentParser()
    ap.add_argument("prop")
    ap.add_argument("--tier", default=os.environ.get("VERIF_TIER", "quick"), choices=["quick", "thorough"])
    ap.add_argument("--seed", type=int, default=None)
    ap.add_argument("--replay", default=None)
    ap.add_argument("--examples", type=int, default=None, help="override per-shard example count")
    ap.add_argument("--shards", type=int, default=None)
    a = ap.parse_args(argv)
    seed = a.seed if a.seed is not None else int(os.environ.get("VERIF_SEED", "1") or "1")
    prop_id = a.prop.upper()
    mod_name = f"vf.props.{prop_id.lower()}"
    sys.path.insert(0, ROOT)
    t0 = time.time()
    try:
        assert_code_under_test()
        mod = importlib.import_module(mod_name)
    except BaseException as e:  # noqa: BLE001
        print(f"HARNESS-ERROR property={prop_id}: {''.join(traceback.format_exception(e))}")
        return 2

    if a.replay:
        return replay(mod, a.replay)

    budget = dict(mod.BUDGET[a.tier])
    if a.examples is not None:
        budget["examples"] = a.examples
    if a.shards is not None:
        budget["shards"] = a.shards
    if os.environ.get("VERIF_EXAMPLES"):
        budget["examples"] = int(os.environ["VERIF_EXAMPLES"])
    nshards = max(1, min(int(budget.get("shards", 1)), os.cpu_count() or 1))
    jobs = [(mod_name, a.tier, seed, s, nshards, int(budget["examples"])) for s in range(nshards)]
    if nshards == 1:
        outcomes = [run_shard(jobs[0])]
    else:
        ctx = mp.get_context("fork")
        with ctx.Pool(nshards) as pool:
            outcomes = pool.map(run_shard, jobs, chunksize=1)

    total = Stats()
    failure = None
    herr = None
    for o in outcomes:
        total.merge(o.stats)
        if o.harness_error and herr is None:
            herr = o.harness_error
        if o.failure and failure is None:
            failure = o.failure
    # coverage-guided tier (atheris), thorough only, for modules that ask for it
    fz = budget.get("fuzz")
    fuzz_violation_lines: list[str] = []
    if failure is None and herr is None and fz and os.environ.get("VERIF_NO_FUZZ") != "1":
        frc, finfo, flines = run_fuzz_tier(prop_id, seed, int(fz.get("procs", 4)), int(fz.get("runs", 20000)))
        total.extra["fuzz"] = finfo
        if frc == 1:
            fuzz_violation_lines = flines
        elif frc == 2:
            herr = "fuzz tier: " + " | ".join(flines)[-800:]

    wall = time.time() - t0

    # aggregate (cross-case) checks
    if failure is None and herr is None and hasattr(mod, "post_run"):
        try:
            pv = mod.post_run(total, a.tier)
            if pv is not None:
                failure = pv
        except HarnessError as e:
            herr = str(e)

    if herr is not None and failure is None:
        print(f"HARNESS-ERROR property={prop_id}: {herr}")
        return 2

    warnings = []
    floors = getattr(mod, "FLOORS", {})
    gen = max(1, total.evaluations)
    for cname, floor in floors.items():
        frac = total.classes.get(cname, 0) / gen
        if frac < floor:
            warnings.append(f"class {cname} at {frac:.3f} below floor {floor}")
    if warnings and os.environ.get("VERIF_STRICT") == "1":
        print(f"HARNESS-ERROR property={prop_id}: generator degenerate: {warnings}")
        return 2

    # known findings that are still present
    known = known_index(prop_id)
    for sig, n in sorted(total.known_hits.items()):
        print(f"KNOWN-FINDING: property={prop_id} {known[sig]['what']} [signature={sig} hits={n}]")

    nviol = 0
    rc = 0
    if failure is not None:
        case, v = failure
        path = write_replay(prop_id, case, v)
        nviol = 1
        rc = 1
    if total.evaluations == 0:
        print(f"HARNESS-ERROR property={prop_id}: no cases evaluated")
        return 2
    if not total.nt_samples and not total.samples:
        total.samples.append({"note": "no sample retained"})
    try:
        evp = write_evidence(mod, a.tier, seed, total, wall, nviol, warnings, validate=(rc == 0))
    except HarnessError as e:
        print(f"HARNESS-ERROR property={prop_id}: {e}")
        return 2
    if rc == 1:
        print(f"violation detail: {v.signature} :: {v.detail[:600]}")
        print(f"VIOLATION property={prop_id} replay={path}")
        return 1
    if fuzz_violation_lines:
        for line in fuzz_violation_lines:
            print(line)
        return 1
    print(
        f"OK property={prop_id} tier={a.tier} seed={seed} evaluations={total.evaluations} "
        f"distinct_nontrivial={len(total.nontrivial_hashes)} wall={wall:.1f}s evidence={evp}"
    )
    return 0


def run_fuzz_tier(prop_id: str, seed: int, procs: int, runs: int) -> tuple[int, dict, list[str]]:
    """Run `procs` atheris processes (vf/fuzz.py) with derived seeds; returns (rc, merged info, output lines)."""
    import shutil
    import subprocess
    import tempfile

    base = tempfile.mkdtemp(prefix=f"fuzz-{prop_id}-", dir=os.path.join(OUT))
    env = dict(os.environ)
    env["PYTHONPATH"] = os.pathsep.join([ROOT, os.path.join(ROOT, ".deps")] + ([env["PYTHONPATH"]] if env.get("PYTHONPATH") else []))
    ps = []
    try:
        for i in range(procs):
            out = os.path.join(base, str(i))
            ps.append((out, subprocess.Popen(
                [sys.executable, "-m", "vf.fuzz", prop_id, "--runs", str(runs), "--seed", str(shard_seed(seed, 1000 + i) % (2**31 - 1) + 1), "--out", out],
                cwd=ROOT, env=env, stdout=subprocess.PIPE, stderr=subprocess.STDOUT, text=True)))
        info = {"engine": "atheris (libFuzzer) over the module's Hypothesis strategy via fuzz_one_input", "processes": procs, "runs_per_process": runs,
                "runs": 0, "evaluations": 0, "distinct_cases": 0, "distinct_nontrivial": 0, "corpus_files": 0, "status": "ok"}
        rc, lines = 0, []
        for out, p_ in ps:
            text, _ = p_.communicate()
            try:
                with open(os.path.join(out, "fuzz-stats.json")) as f:
                    st_ = json.load(f)
                for k in ("runs", "evaluations", "distinct_cases", "distinct_nontrivial"):
                    info[k] += st_.get(k, 0)
                if st_.get("sample") and "sample" not in info:
                    info["sample"] = st_["sample"]
            except (OSError, ValueError):
                pass
            try:
                info["corpus_files"] += len(os.listdir(os.path.join(out, "corpus")))
            except OSError:
                pass
            if p_.returncode == 3:
                info["status"] = "unavailable (atheris not importable); tier skipped"
            elif p_.returncode == 1:
                rc = 1
                lines += [l for l in text.splitlines() if l.startswith(("violation detail:", "VIOLATION "))]
            elif p_.returncode not in (0, None):
                if rc == 0:
                    rc = 2
                lines.append(text[-600:])
        return rc, info, lines
    finally:
        shutil.rmtree(base, ignore_errors=True)


def replay(mod, path: str) -> int:
    with open(path) as f:
        doc = json.load(f)
    case = doc["case"] if isinstance(doc, dict) and "case" in doc else doc
    known = known_index(mod.ID)
    if hasattr(mod, "shard_init"):
        mod.shard_init("quick")
    try:
        stats = Stats()
        v = evaluate(mod, case, known, stats, "replay")
    except HarnessError as e:
        print(f"HARNESS-ERROR property={mod.ID}: {e}")
        return 2
    for sig, n in stats.known_hits.items():
        print(f"KNOWN-FINDING: property={mod.ID} {known[sig]['what']} [signature={sig}]")
    if v is not None:
        print(f"violation detail: {v.signature} :: {v.detail[:1500]}")
        print(f"VIOLATION property={mod.ID} replay={path}")
        return 1
    print(f"OK property={mod.ID} replay={path}: no violation")
    return 0


if __name__ == "__main__":
    sys.exit(main())
