#!/bin/sh
# Offline setup: make sure hypothesis (and optionally jsonschema, atheris) import
# under the repository's interpreter.  Installs from the local wheelhouse into
# /verif/.deps only when something is missing.  Nothing is fetched.
here="$(cd "$(dirname "$0")" && pwd)"
cd "$here" || exit 2
PY=/venv/bin/python
WH=/opt/veriftools/wheels
export PIP_NO_INDEX=1
need=""
PYTHONPATH="$here/.deps" $PY -c "import hypothesis" 2>/dev/null || need="$need hypothesis"
PYTHONPATH="$here/.deps" $PY -c "import jsonschema" 2>/dev/null || need="$need jsonschema"
PYTHONPATH="$here/.deps" $PY -c "import atheris" 2>/dev/null || need="$need atheris"
if [ -n "$need" ]; then
  for pkg in $need; do
    $PY -m pip install --quiet --no-index --find-links "$WH" --target "$here/.deps" "$pkg" \
      || echo "setup: optional package $pkg not installable (continuing)"
  done
fi
PYTHONPATH="$here/.deps" $PY -c "import hypothesis, google.protobuf, noise, cryptography; print('setup ok: hypothesis', hypothesis.__version__)" || exit 1
PYTHONPATH="/repo" $PY -c "import aioesphomeapi, os; print('code under test:', os.path.dirname(aioesphomeapi.__file__))" || exit 1
